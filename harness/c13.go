package main

// C13 — on partial failure the count names a prefix that really moved. Scripted peer failing chosen chunk offsets.

import (
	"bytes"
	"fmt"
	"io"
)

func init() { register("c13", runC13) }

// oraclePartial: the statement of C13 evaluated against the peer's store and the caller's buffer.
func oraclePartial(x *xcase, r *xresult) (bool, string) {
	initial := patternBytes(0, x.flen)
	data := patternBytes(1000, x.n)
	// the lowest failing chunk offset the transfer can reach
	lowest := -1
	var code uint32
	limit := x.off + x.n
	if x.api == "writeto" {
		limit = x.flen
	}
	plan := x.rfail
	if isWriteAPI(x.api) {
		plan = x.wfail
	}
	if !isWriteAPI(x.api) && x.maxtx < x.p {
		// the server hands out at most maxtx bytes per READ, fewer than a chunk: within each chunk the client asks again for the rest,
		// so the requests start where the data received so far ends (these cases run on the sequential paths only)
		for pos := x.off; pos < limit && pos < x.flen+x.p; {
			if cd, bad := plan[uint64(pos)]; bad {
				lowest, code = pos, cd
				break
			}
			chunkEnd := x.off + ((pos-x.off)/x.p+1)*x.p
			if chunkEnd > limit {
				chunkEnd = limit
			}
			got := chunkEnd - pos
			if got > x.maxtx {
				got = x.maxtx
			}
			if pos+got > x.flen {
				got = x.flen - pos
			}
			if got <= 0 {
				break
			}
			pos += got
		}
	} else {
		for o := x.off; o < limit; o += x.p {
			if cd, bad := plan[uint64(o)]; bad {
				lowest, code = o, cd
				break
			}
		}
	}
	if (x.api == "writeat" || x.api == "write") && x.n == 0 {
		// a zero-length Write still sends one (empty) WRITE request at the offset
		if cd, bad := plan[uint64(x.off)]; bad {
			lowest, code = x.off, cd
		}
	}
	switch x.api {
	case "readat", "read", "writeto":
		end := limit
		if end > x.flen {
			end = x.flen
		}
		if x.off > end {
			end = x.off
		}
		if lowest >= 0 && lowest < x.flen {
			end = lowest
		} else {
			lowest = -1
			// nothing is refused inside the file. The transfer then meets the end of the file with one request at the end itself (or at
			// its start offset when that lies beyond): EOF from an ordinary server - but a server may refuse that request too, and then
			// that refusal is the lowest point at which anything but data came back (refusals further out do not matter)
			at := x.flen
			if x.off > x.flen {
				at = x.off
			}
			// (a read into an empty buffer sends no request at all: nothing can be refused)
			if cd, bad := plan[uint64(at)]; bad && (x.api == "writeto" || (x.n > 0 && x.off+x.n > x.flen)) {
				lowest, code = at, cd
			}
			// which requests a path sends at and beyond the end differs (a follow-up at the end itself, or only the next chunk on
			// the grid): without a refusal at `at`, the refusal of a request further out is acceptable where EOF would be - the
			// delivered bytes and the count are judged all the same, and which of the two it is is the model's business
			if lowest < 0 {
				for o, cd := range plan {
					if int(o) > at && errIsStatus(r.err, cd) {
						lowest, code = int(o), cd
					}
				}
			}
		}
		if x.contigEnd > 0 && x.contigEnd < end {
			// the concurrent read paths ask for every chunk at its grid offset: after a short answer the contiguous data ends there,
			// whatever the later chunks bring (the refusal of the next chunk is still the lowest failing offset)
			end = x.contigEnd
		}
		var want []byte
		if x.off < x.flen {
			want = initial[x.off:end]
		}
		if !bytes.Equal(r.data, want) {
			return false, fmt.Sprintf("%s: delivered bytes are not the intact prefix up to the lowest failing offset (%d bytes, want %d)", x.api, len(r.data), len(want))
		}
		if int(r.n) != len(want) {
			return false, fmt.Sprintf("%s: count %d, intact prefix %d", x.api, r.n, len(want))
		}
		if lowest >= 0 {
			if !errIsStatus(r.err, code) {
				return false, fmt.Sprintf("%s: error %v is not the status %d of the lowest failing offset %d", x.api, r.err, code, lowest)
			}
		} else if x.api == "writeto" {
			if r.err != nil {
				return false, fmt.Sprintf("WriteTo: unexpected error %v", r.err)
			}
		} else {
			if (len(want) == x.n) != (r.err == nil) {
				return false, fmt.Sprintf("%s: short count %d of %d with err=%v", x.api, r.n, x.n, r.err)
			}
			if r.err != nil && r.err != io.EOF {
				return false, fmt.Sprintf("%s: error %v where only EOF is possible", x.api, r.err)
			}
			if r.err == io.EOF && x.off+len(want) != x.flen && !(x.off >= x.flen) {
				return false, "io.EOF reported before the true end of the file"
			}
		}
		if x.api != "readat" && int(r.foff) != x.off+len(want) {
			return false, fmt.Sprintf("offset after %s is %d, end of the intact prefix is %d", x.api, r.foff, x.off+len(want))
		}
	default:
		full := spliceRef(initial, x.off, data)
		if lowest < 0 {
			if !bytes.Equal(r.file, full) || r.err != nil || int(r.n) != x.n {
				return false, fmt.Sprintf("%s without reachable failure: n=%d err=%v", x.api, r.n, r.err)
			}
			return true, ""
		}
		if !errIsStatus(r.err, code) {
			return false, fmt.Sprintf("%s: error %v is not the status %d of the lowest failing offset %d (count %d of %d)", x.api, r.err, code, lowest, r.n, x.n)
		}
		pre := lowest
		keep := x.off
		if keep > x.flen {
			keep = x.flen
		}
		if len(r.file) < keep || !bytes.Equal(r.file[:keep], initial[:keep]) {
			return false, fmt.Sprintf("%s: bytes before the transfer's offset were damaged", x.api)
		}
		if pre > x.off && (len(r.file) < pre || !bytes.Equal(r.file[x.off:pre], full[x.off:pre])) {
			return false, fmt.Sprintf("%s: the first %d transferred bytes (up to the lowest failing offset) are not intact", x.api, pre-x.off)
		}
		switch x.api {
		case "writeat", "write":
			if int(r.n) != lowest-x.off {
				return false, fmt.Sprintf("%s: count %d, intact prefix %d", x.api, r.n, lowest-x.off)
			}
			if x.api == "write" && int(r.foff) != lowest {
				return false, fmt.Sprintf("offset after Write is %d, intact prefix ends at %d", r.foff, lowest)
			}
		default:
			if int(r.foff) != lowest {
				return false, fmt.Sprintf("offset after %s is %d, intact prefix ends at %d", x.api, r.foff, lowest)
			}
			if r.srcN >= 0 && int(r.n) != r.srcN {
				return false, fmt.Sprintf("%s: count %d but %d bytes were consumed from the source", x.api, r.n, r.srcN)
			}
			if int(r.n) < lowest-x.off {
				return false, fmt.Sprintf("%s: count %d is less than the intact prefix %d", x.api, r.n, lowest-x.off)
			}
		}
	}
	return true, ""
}

func runC13(c *Ctx) {
	c.Rule("scripted peer failing every single chunk index and seeded sets of indices (status codes 4, 2, 3, 9), replies in order and permuted, for ReadAt, Read, WriteTo, WriteAt, Write, ReadFrom, ReadFromWithConcurrency " +
		"x packet sizes {1,2,3,4} x concurrency {1,2,3} x concurrent reads/writes on/off; a third of the seeded cases run against the request server (allocator off/on) over a backend whose ReadAt/WriteAt fails at the planned request offsets (a failing ReadAt returns its partial bytes with the error); non-trivial = at least one failing chunk is reached and at least two chunks are involved")
	apis := []string{"readat", "read", "writeto", "writeat", "write", "readfrom", "readfromc"}
	codes := []uint32{4, 2, 3, 9}
	budget := 1400
	if c.Thorough() {
		budget = 60000
	}
	count := 0
	nOpaque := 0
	one := func(x *xcase) {
		if (x.api == "readfrom" || x.api == "readfromc") && x.src == "opaque" {
			x.dataEOF = nOpaque%2 == 1 // the source's last bytes come together with io.EOF
			nOpaque++
		}
		r, n := emitX(c, x)
		if r == nil {
			return
		}
		if len(x.rfail)+len(x.wfail) > 0 && x.n > x.p {
			c.NT(n)
		}
		ok, why := oraclePartial(x, r)
		c.Oracle(n, ok, why)
		count++
	}
	// every single failing chunk index for a fixed shape, all APIs, both reply orders
	for _, api := range apis {
		for _, p := range []int{2, 3} {
			for _, cc := range []bool{false, true} {
				for k := 0; k < 5; k++ {
					for _, be := range []string{"peer", "peerperm"} {
						x := &xcase{api: api, p: p, conc: 3, cr: cc, cw: cc, flen: 4*p + 1, n: 4*p + 1, off: 0, maxtx: 32768, src: "opaque", backend: be, regular: true}
						if isWriteAPI(api) {
							x.flen = 2
							x.wfail = map[uint64]uint32{uint64(k * p): codes[k%4]}
						} else {
							x.rfail = map[uint64]uint32{uint64(k * p): codes[k%4]}
						}
						one(x)
					}
				}
			}
		}
	}
	// two failing chunks with different statuses, replies permuted: the error is the one of the LOWER offset whichever reply
	// arrives first (every concurrent path has a reduce step of its own)
	for _, api := range []string{"readfromc", "writeat", "readat", "writeto"} {
		for _, p := range []int{2, 3} {
			for _, pr := range [][2]int{{0, 2}, {1, 3}, {0, 3}, {1, 2}, {2, 3}, {0, 1}} {
				for rep := 0; rep < 2; rep++ {
					x := &xcase{api: api, p: p, conc: 3, cr: true, cw: true, flen: 4*p + 1, n: 4*p + 1, off: 0, maxtx: 32768, src: "opaque", backend: "peerperm", regular: true}
					plan := map[uint64]uint32{uint64(pr[0] * p): codes[(pr[0]+rep)%4], uint64(pr[1] * p): codes[(pr[1]+rep+1)%4]}
					if plan[uint64(pr[0]*p)] == plan[uint64(pr[1]*p)] {
						plan[uint64(pr[1]*p)] = codes[(pr[1]+rep+2)%4]
					}
					if isWriteAPI(api) {
						x.flen = 2
						x.wfail = plan
					} else {
						x.rfail = plan
					}
					c.Stat("two_failing_chunks_permuted")
					one(x)
				}
			}
		}
	}
	// reads that reach past the end of the file, with the chunk that lies wholly beyond the end refused (not EOF): the call still
	// ends at the true end of the file with io.EOF, whatever order the EOF and the refusal arrive in
	for _, api := range []string{"readat", "read", "writeto"} {
		for _, p := range []int{2, 3, 4} {
			for _, be := range []string{"peer", "peerperm", "peerperm", "req"} {
				for _, tail := range []int{0, 1} {
					flen := 2*p + tail*(p/2+1)
					x := &xcase{api: api, p: p, conc: 3, cr: true, cw: false, flen: flen, n: 5 * p, off: 0, maxtx: 32768, src: "opaque", backend: be, regular: true}
					first := (flen + p - 1) / p * p // the first chunk offset at or beyond the end
					x.rfail = map[uint64]uint32{uint64(first + p): codes[(p+tail)%3]}
					if be != "req" {
						x.rfail[uint64(first+2*p)] = codes[0]
					}
					c.Stat("reads_refused_beyond_the_end")
					one(x)
					// and the probing READ right at / right after the end itself refused (after a full or a short last chunk): the
					// bytes are all there, but the server did not say end-of-file - the refusal is the outcome, never nil
					for _, conc := range []int{1, 3} {
						y := &xcase{api: api, p: p, conc: conc, cr: true, cw: false, flen: flen, n: 5 * p, off: 0, maxtx: 32768, src: "opaque", backend: be, regular: true}
						y.rfail = map[uint64]uint32{uint64(first): codes[(p+tail+conc)%3]}
						c.Stat("reads_refused_right_at_the_end")
						one(y)
					}
				}
			}
		}
	}
	// a server that hands out less than a chunk per READ (legal) and refuses one of the follow-up READs inside a chunk: the data
	// received before it is an intact prefix, the refusal is reported - never a short count with a nil error (sequential paths and
	// single-packet reads: the concurrent read path needs packets no larger than the server's payload)
	for i := 0; i < budget/10; i++ {
		p := []int{4, 6, 8}[i%3]
		mt := []int{p / 2, p - 1, 1, 3}[(i/3)%4]
		api := []string{"readat", "read", "writeto"}[i%3]
		x := &xcase{api: api, p: p, conc: 2, cr: false, cw: false, fst: i%2 == 0, flen: 4*p + 1, n: []int{p, 3*p + 1, p - 1}[(i/4)%3], off: []int{0, 1, p}[(i/2)%3],
			maxtx: mt, src: "opaque", backend: []string{"peer", "req"}[i%2], regular: true}
		if x.n <= p && i%4 == 0 && api != "writeto" {
			x.cr = true // a read that fits in one packet takes the same loop whatever the option says
		}
		// refuse a follow-up: an offset inside a chunk, reached only after a short answer
		k := i % 3
		x.rfail = map[uint64]uint32{uint64(x.off + k*p + mt): codes[i%3]}
		if x.backend == "req" {
			continue // the in-package server fills every READ of a regular file: no follow-ups to refuse
		}
		c.Stat("refused_follow_up_reads")
		one(x)
		// concurrent WriteTo (concurrent ReadAt takes a short answer for the end of the file - the documented side condition of that path): the first chunk answered short (a server may), the second chunk refused - the bytes of the
		// short answer are the intact prefix, the refusal is the outcome (a short answer alone is not the end of the file)
		if i%2 == 0 {
			y := &xcase{api: "writeto", p: p, conc: 2 + i%2, cr: true, cw: false, fst: i%4 == 0, flen: 4*p + 1, n: 3*p + 1, off: 0,
				maxtx: mt, src: "opaque", backend: "peer", regular: true}
			y.rfail = map[uint64]uint32{uint64(p): codes[i%3]}
			y.contigEnd = mt
			c.Stat("short_answer_then_refused_chunk_concurrent")
			one(y)
		}
	}
	for count < budget {
		p := 1 + c.Rng.Intn(4)
		conc := 1 + c.Rng.Intn(3)
		x := &xcase{api: apis[c.Rng.Intn(len(apis))], p: p, conc: conc, cr: c.Rng.Intn(2) == 0, cw: c.Rng.Intn(2) == 0, fst: c.Rng.Intn(2) == 0,
			maxtx: 32768, src: []string{"len", "opaque", "limited"}[c.Rng.Intn(3)], backend: []string{"peer", "peerperm", "peer", "peerperm", "req", "reqalloc"}[c.Rng.Intn(6)], regular: true, ro: c.Rng.Intn(2) == 0}
		x.flen = c.Rng.Intn(6*p + 2)
		x.n = c.Rng.Intn(6*p + 2)
		x.off = []int{0, 0, 1, p, p + 1, 2 * p}[c.Rng.Intn(6)]
		plan := map[uint64]uint32{}
		nf := 1 + c.Rng.Intn(3)
		for i := 0; i < nf; i++ {
			k := c.Rng.Intn(7)
			plan[uint64(x.off+k*p)] = codes[c.Rng.Intn(4)]
			if x.backend == "req" || x.backend == "reqalloc" {
				plan[uint64(x.off+k*p)] = codes[c.Rng.Intn(3)] // statuses a handler's error can produce
			}
		}
		if isWriteAPI(x.api) {
			x.wfail = plan
		} else {
			// a server may refuse a read anywhere, also at an offset beyond the end of the file (where another server would say EOF):
			// the lowest offset at which anything but data came back decides - EOF at the true end if that is lower
			x.rfail = plan
		}
		one(x)
	}
}
