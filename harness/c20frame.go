package main

import (
	"errors"
	"fmt"
	"io"
	"net"
	"os"
	"strings"
	"time"

	"github.com/pkg/sftp"
)

// c20 kind framecut: "a valid reply cut at any byte" - here the FRAME is cut (the length prefix announces more than follows) and
// the transport then ends, not necessarily with io.EOF: a reset connection, a closed pipe or an ssh channel error reach the client's
// receive loop as other error values. Every cut position of the frame (inside the length prefix, right behind it, inside the body)
// times three ways for the stream to end; for the VERSION reply of the handshake and for the reply to STAT, OPEN and READ. The
// client neither panics (in the caller or in its receive goroutine: the cases run in a child process) nor hangs; the call fails.
type c20EndReader struct {
	r   io.Reader
	end error
}

func (e *c20EndReader) Read(p []byte) (int, error) {
	n, err := e.r.Read(p)
	if err == io.EOF || errors.Is(err, io.ErrClosedPipe) {
		err = e.end
	}
	return n, err
}

var c20Ends = map[string]error{
	"eof":    io.EOF,
	"closed": io.ErrClosedPipe,
	"reset":  &net.OpError{Op: "read", Net: "tcp", Err: errors.New("connection reset by peer")},
}

func c20FrameCutRun(op string, k int, endKind string) string {
	c1, c2 := net.Pipe()
	var target byte
	var reply []byte
	switch op {
	case "version":
		reply = (&rb{}).u8(fxpVersion).u32(3).str("ext@example.com").str("1").b
	case "stat":
		target, reply = fxpStat, pkt(fxpAttrs, 0).raw(validAttrsBody()).b
	case "open":
		target, reply = fxpOpen, pkt(fxpHandle, 0).str("hh").b
	case "read":
		target, reply = fxpRead, pkt(fxpData, 0).str("0123456789abcdef").b
	}
	go func() {
		defer c2.Close()
		cut := func(id uint32) {
			r := append([]byte(nil), reply...)
			if op != "version" && len(r) >= 5 {
				r[1], r[2], r[3], r[4] = byte(id>>24), byte(id>>16), byte(id>>8), byte(id)
			}
			f := frame(r)
			if k < len(f) {
				f = f[:k]
			}
			c2.SetWriteDeadline(time.Now().Add(5 * time.Second))
			c2.Write(f)
		}
		fr, err := readFrame(c2)
		if err != nil || fr.Typ != fxpInit {
			return
		}
		if op == "version" {
			cut(0)
			return
		}
		c2.Write(frame((&rb{}).u8(fxpVersion).u32(3).b))
		for {
			fr, err := readFrame(c2)
			if err != nil {
				return
			}
			if fr.Typ == target {
				cut(fr.ID)
				return
			}
			switch fr.Typ {
			case fxpOpen:
				c2.Write(frame(pkt(fxpHandle, fr.ID).str("hh").b))
			case fxpStat, fxpFstat, fxpLstat:
				c2.Write(frame(pkt(fxpAttrs, fr.ID).raw(validAttrsBody()).b))
			default:
				c2.Write(frame(pkt(fxpStatus, fr.ID).u32(0).str("").str("").b))
			}
		}
	}()
	resCh := make(chan string, 1)
	go func() {
		cl, err := sftp.NewClientPipe(&c20EndReader{r: c1, end: c20Ends[endKind]}, c1, sftp.UseConcurrentReads(false))
		if err != nil {
			if op == "version" {
				resCh <- "err"
			} else {
				resCh <- "setup-failed"
			}
			return
		}
		defer cl.Close()
		switch op {
		case "version":
			resCh <- "val" // only when the whole frame went out
		case "stat":
			_, err = cl.Stat("/x")
		case "open":
			var f *sftp.File
			if f, err = cl.Open("/x"); err == nil {
				f.Close()
			}
		case "read":
			var f *sftp.File
			if f, err = cl.OpenFile("/x", os.O_RDONLY); err == nil {
				b := make([]byte, 16)
				_, err = f.ReadAt(b, 0)
				f.Close()
			}
		}
		if op != "version" {
			if err != nil {
				resCh <- "err"
			} else {
				resCh <- "val"
			}
		}
	}()
	select {
	case r := <-resCh:
		c1.Close()
		return r
	case <-time.After(8 * time.Second):
		c1.Close()
		return "hang"
	}
}

func init() {
	childEntries["c20frame"] = func([]string) {
		childLoop(func(req string) string {
			var op, end string
			var k int
			if _, err := fmt.Sscanf(req, "%s %d %s", &op, &k, &end); err != nil {
				return "bad-request"
			}
			return c20FrameCutRun(op, k, end)
		})
	}
}

func c20FrameCuts(c *Ctx) {
	var ch *childProc
	defer func() {
		if ch != nil {
			ch.kill()
		}
	}()
	lens := map[string]int{"version": 4 + 1 + 4 + 4 + 15 + 4 + 1, "stat": 4 + 1 + 4 + len(validAttrsBody()), "open": 4 + 1 + 4 + 4 + 2, "read": 4 + 1 + 4 + 4 + 16}
	for _, op := range []string{"version", "stat", "open", "read"} {
		total := lens[op]
		var ks []int
		for k := 0; k <= total; k++ {
			if k <= 10 || k >= total-2 || c.Thorough() {
				ks = append(ks, k)
			}
		}
		for _, k := range ks {
			for _, end := range []string{"eof", "closed", "reset"} {
				cn := c.Case("framecut", kvs("op", op), kvi("cut", k), kvi("of", total), kvs("end", end))
				if k < total {
					c.NT(cn)
				}
				c.Stat("framecut_cases")
				if ch == nil {
					var err error
					if ch, err = startChild("c20frame", 6000000); err != nil {
						c.Oracle(cn, false, "harness: cannot start child: "+err.Error())
						return
					}
				}
				ans, alive := ch.ask(fmt.Sprintf("%s %d %s", op, k, end), 20*time.Second)
				switch {
				case !alive:
					ch.kill()
					ch = nil
					c.Oracle(cn, false, fmt.Sprintf("client process crashed (panic in the caller or in the receive goroutine) or hung: the %s reply frame cut after %d of %d bytes, then the transport ended with %q", strings.ToUpper(op), k, total, end))
				case ans == "hang":
					c.Oracle(cn, false, fmt.Sprintf("operation did not return within 8s: %s reply frame cut after %d of %d bytes (%s)", op, k, total, end))
				case ans == "val" && k < total:
					c.Oracle(cn, false, fmt.Sprintf("the call succeeded although its reply frame was cut after %d of %d bytes", k, total))
				case ans == "setup-failed" || ans == "bad-request":
					c.Oracle(cn, false, "harness: "+ans)
				default:
					c.Oracle(cn, true, "")
				}
			}
		}
	}
}
