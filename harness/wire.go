package main

// Canonical one-token text form of logical packets (shared with ocaml/drv_wire.ml) and packet generators.

import (
	"encoding/binary"
	"encoding/hex"
	"fmt"
	"math/rand"
	"strings"

	"github.com/pkg/sftp"
)

func hx(s string) string {
	if len(s) == 0 {
		return "-"
	}
	return hex.EncodeToString([]byte(s))
}

func canonAttrs(a *sftp.VerifAttrs) string {
	ext := "-"
	if len(a.Ext) > 0 {
		parts := make([]string, len(a.Ext))
		for i, e := range a.Ext {
			parts[i] = hx(e[0]) + ":" + hx(e[1])
		}
		ext = strings.Join(parts, "+")
	}
	return fmt.Sprintf("%x.%x.%x.%x.%x.%x.%x.%s", a.Flags, a.Size, a.UID, a.GID, a.Perm, a.Atime, a.Mtime, ext)
}

func canonAbody(p *sftp.VerifPacket) string {
	if p.HasRaw {
		return "r:" + hexs(p.Raw)
	}
	if p.Attrs != nil {
		return "a:" + canonAttrs(p.Attrs)
	}
	return "r:-"
}

func canonPairs(l [][2]string) string {
	if len(l) == 0 {
		return "-"
	}
	parts := make([]string, len(l))
	for i, e := range l {
		parts[i] = hx(e[0]) + ":" + hx(e[1])
	}
	return strings.Join(parts, "+")
}

// canon prints exactly the fields that are meaningful for the kind, in a fixed order.
func canon(p *sftp.VerifPacket) string {
	if p == nil {
		return "nil"
	}
	id := fmt.Sprintf("id=%x", p.ID)
	switch p.Kind {
	case "init", "version":
		return fmt.Sprintf("%s;ver=%x;pairs=%s", p.Kind, p.N1, canonPairs(p.Pairs))
	case "open":
		return fmt.Sprintf("open;%s;s1=%s;n1=%x;n2=%x;ab=%s", id, hx(p.S1), p.N1, p.N2, canonAbody(p))
	case "close", "fstat", "readdir", "handle", "fsync", "lstat", "opendir", "remove", "rmdir", "realpath", "stat", "readlink", "statvfs":
		return fmt.Sprintf("%s;%s;s1=%s", p.Kind, id, hx(p.S1))
	case "read":
		return fmt.Sprintf("read;%s;s1=%s;n1=%x;n2=%x", id, hx(p.S1), p.N1, p.N2)
	case "write":
		return fmt.Sprintf("write;%s;s1=%s;n1=%x;data=%s", id, hx(p.S1), p.N1, hexs(p.Data))
	case "setstat", "fsetstat", "mkdir":
		return fmt.Sprintf("%s;%s;s1=%s;n2=%x;ab=%s", p.Kind, id, hx(p.S1), p.N2, canonAbody(p))
	case "rename", "symlink", "posixrename", "hardlink":
		return fmt.Sprintf("%s;%s;s1=%s;s2=%s", p.Kind, id, hx(p.S1), hx(p.S2))
	case "extother":
		return fmt.Sprintf("extother;%s;s1=%s;data=%s", id, hx(p.S1), hexs(p.Data))
	case "status":
		return fmt.Sprintf("status;%s;n1=%x;s1=%s;s2=%s", id, p.N1, hx(p.S1), hx(p.S2))
	case "data", "extreplyother":
		return fmt.Sprintf("%s;%s;data=%s", p.Kind, id, hexs(p.Data))
	case "name":
		names := "-"
		if len(p.Names) > 0 {
			parts := make([]string, len(p.Names))
			for i := range p.Names {
				e := &p.Names[i]
				parts[i] = hx(e.Name) + "/" + hx(e.Long) + "/" + canonAttrs(&e.Attrs)
			}
			names = strings.Join(parts, "|")
		}
		return fmt.Sprintf("name;%s;names=%s", id, names)
	case "attrs":
		return fmt.Sprintf("attrs;%s;ab=%s", id, canonAbody(p))
	case "statvfsreply":
		parts := make([]string, len(p.Vals))
		for i, v := range p.Vals {
			parts[i] = fmt.Sprintf("%x", v)
		}
		return fmt.Sprintf("statvfsreply;%s;vals=%s", id, strings.Join(parts, "."))
	}
	return "unknown-kind-" + p.Kind
}

// ---------- generators ----------

var boundaryU32 = []uint32{0, 1, 2, 255, 256, 1 << 16, 1<<31 - 1, 1 << 31, 1<<32 - 1}
var boundaryU64 = []uint64{0, 1, 255, 1 << 31, 1<<32 - 1, 1 << 32, 1<<63 - 1, 1 << 63, 1<<64 - 1}

func genU32(r *rand.Rand) uint32 {
	switch r.Intn(3) {
	case 0:
		return boundaryU32[r.Intn(len(boundaryU32))]
	case 1:
		return uint32(r.Intn(1000))
	}
	return r.Uint32()
}
func genU64(r *rand.Rand) uint64 {
	switch r.Intn(3) {
	case 0:
		return boundaryU64[r.Intn(len(boundaryU64))]
	case 1:
		return uint64(r.Intn(100000))
	}
	return r.Uint64()
}
func genStr(r *rand.Rand) string {
	switch r.Intn(8) {
	case 0:
		return ""
	case 1:
		n := 200 + r.Intn(1200)
		b := make([]byte, n)
		r.Read(b)
		return string(b)
	case 2:
		return string([]byte{0xff, 0xfe, 0x00, 0x80, 0xc3, 0x28}) // non-UTF-8
	case 3:
		return "/tmp/some dir/ünï/файл"
	}
	n := 1 + r.Intn(12)
	b := make([]byte, n)
	for i := range b {
		b[i] = "abcdefghij/._-0123"[r.Intn(18)]
	}
	return string(b)
}
func genData(r *rand.Rand, big bool) []byte {
	var n int
	switch r.Intn(6) {
	case 0:
		n = 0
	case 1:
		n = 1
	case 2:
		if big {
			n = 32768 + r.Intn(40000)
		} else {
			n = 300 + r.Intn(400)
		}
	default:
		n = r.Intn(64)
	}
	b := make([]byte, n)
	r.Read(b)
	return b
}

// genAttrs produces a normalised attribute block (fields not flagged are zero) for the given flag subset.
func genAttrs(r *rand.Rand, flags uint32) *sftp.VerifAttrs {
	a := &sftp.VerifAttrs{Flags: flags}
	if flags&1 != 0 {
		a.Size = genU64(r)
	}
	if flags&2 != 0 {
		a.UID, a.GID = genU32(r), genU32(r)
	}
	if flags&4 != 0 {
		a.Perm = genU32(r)
	}
	if flags&8 != 0 {
		a.Atime, a.Mtime = genU32(r), genU32(r)
	}
	if flags&0x80000000 != 0 {
		n := r.Intn(4)
		for i := 0; i < n; i++ {
			a.Ext = append(a.Ext, [2]string{genStr(r), genStr(r)})
		}
	}
	return a
}

var flagSubsets = func() []uint32 {
	var out []uint32
	for m := 0; m < 32; m++ {
		f := uint32(m & 15)
		if m&16 != 0 {
			f |= 0x80000000
		}
		out = append(out, f)
	}
	return out
}()

var requestKinds = []string{"init", "open", "close", "read", "write", "lstat", "fstat", "setstat", "fsetstat", "opendir", "readdir", "remove",
	"mkdir", "rmdir", "realpath", "stat", "rename", "readlink", "symlink", "statvfs", "posixrename", "hardlink", "fsync", "extother"}
var responseKinds = []string{"version", "status", "handle", "data", "name", "attrs", "statvfsreply"}

func genPacket(r *rand.Rand, kind string, flags uint32, big bool) *sftp.VerifPacket {
	p := &sftp.VerifPacket{Kind: kind, ID: genU32(r)}
	switch kind {
	case "init", "version":
		p.ID = 0
		p.N1 = uint64(genU32(r))
		if r.Intn(3) == 0 {
			p.N1 = 3
		}
		n := r.Intn(4)
		for i := 0; i < n; i++ {
			p.Pairs = append(p.Pairs, [2]string{genStr(r), genStr(r)})
		}
	case "open":
		p.S1, p.N1, p.N2 = genStr(r), uint64(genU32(r)&63), uint64(flags)
		p.Attrs = genAttrs(r, flags)
	case "close", "fstat", "readdir", "handle", "fsync", "lstat", "opendir", "remove", "rmdir", "realpath", "stat", "readlink", "statvfs":
		p.S1 = genStr(r)
	case "read":
		p.S1, p.N1, p.N2 = genStr(r), genU64(r), uint64(genU32(r))
	case "write":
		p.S1, p.N1, p.Data = genStr(r), genU64(r), genData(r, big)
	case "setstat", "fsetstat":
		p.S1, p.N2 = genStr(r), uint64(flags)
		p.Attrs = genAttrs(r, flags)
	case "mkdir":
		// codec A cannot carry attributes on MKDIR: the common domain is "no attributes"
		p.S1, p.N2 = genStr(r), 0
		p.Attrs = genAttrs(r, 0)
	case "rename", "symlink", "posixrename", "hardlink":
		p.S1, p.S2 = genStr(r), genStr(r)
	case "extother":
		p.S1, p.Data = genStr(r)+"@example.com", genData(r, false)
		if r.Intn(3) == 0 {
			// a name that is NOT one of the extensions the package knows but spells almost like one (letter case, padding, a
			// character more or less), with the payload the real extension would carry: still an unknown extension, byte for byte
			base := []string{"hardlink@openssh.com", "posix-rename@openssh.com", "statvfs@openssh.com", "fsync@openssh.com"}[r.Intn(4)]
			at := strings.IndexByte(base, '@')
			p.S1 = []string{strings.ToUpper(base), strings.ToUpper(base[:1]) + base[1:], base[:at] + "@OpenSSH.com", base + " ", " " + base, base + "\x00",
				base[:len(base)-1], base + "m", strings.ToUpper(base[:at]) + base[at:]}[r.Intn(9)]
			a, b := genStr(r), genStr(r)
			p.Data = append(append(binary.BigEndian.AppendUint32(nil, uint32(len(a))), a...), append(binary.BigEndian.AppendUint32(nil, uint32(len(b))), b...)...)
		}
	case "status":
		p.N1, p.S1, p.S2 = uint64(genU32(r)), genStr(r), genStr(r)
		if r.Intn(2) == 0 {
			p.N1 = uint64(r.Intn(9))
		}
	case "data":
		p.Data = genData(r, big)
	case "name":
		n := r.Intn(4)
		for i := 0; i < n; i++ {
			p.Names = append(p.Names, sftp.VerifName{Name: genStr(r), Long: genStr(r), Attrs: *genAttrs(r, flagSubsets[r.Intn(len(flagSubsets))])})
		}
	case "attrs":
		p.Attrs = genAttrs(r, flags)
	case "statvfsreply":
		for i := 0; i < 11; i++ {
			p.Vals = append(p.Vals, genU64(r))
		}
	}
	return p
}

func isRequestKind(k string) bool {
	for _, x := range requestKinds {
		if x == k {
			return true
		}
	}
	return false
}
