package main

import (
	"encoding/binary"
	"fmt"
	"io"
	"os"
	"os/user"
	"path/filepath"
	"strconv"
	"syscall"
	"time"

	"github.com/pkg/sftp"
)

// c17 kind runls on LISTED entries: "the human-readable long name in listings agrees with the structured attributes" decided on
// the NAME entries the two servers really send. A directory of files, directories, links and a file with two names, with sizes
// and times set on purpose, is listed by a raw READDIR through the os-backed server (owner columns are names: the server looks
// them up) and through the request server with a handler that lists the same directory (no name lookup: numbers). For every
// entry the attribute block is decoded (size, uid, gid, permissions, mtime) and handed, with the host's link count, to run_ls of
// the extracted model: the line the model composes from the STRUCTURED attributes must be the long name in the same entry.
type dirLister struct{ infos []os.FileInfo }

func (l dirLister) ListAt(out []os.FileInfo, off int64) (int, error) {
	if off >= int64(len(l.infos)) {
		return 0, io.EOF
	}
	n := copy(out, l.infos[off:])
	if int(off)+n >= len(l.infos) {
		return n, io.EOF
	}
	return n, nil
}

type dirListHandlers struct {
	nullHandlers
	dir string
}

func (h dirListHandlers) Filelist(r *sftp.Request) (sftp.ListerAt, error) {
	if r.Method != "List" {
		return nil, os.ErrNotExist
	}
	ents, err := os.ReadDir(h.dir)
	if err != nil {
		return nil, err
	}
	var infos []os.FileInfo
	for _, e := range ents {
		if fi, err := os.Lstat(filepath.Join(h.dir, e.Name())); err == nil {
			infos = append(infos, fi)
		}
	}
	return dirLister{infos}, nil
}

func c17ListedLongNames(c *Ctx) {
	saved := time.Local
	time.Local = time.UTC // the servers run in this process: listed times are formatted in time.Local; the model is in UTC
	defer func() { time.Local = saved }()
	dir, err := os.MkdirTemp("", "vh-c17ll-")
	if err != nil {
		return
	}
	defer os.RemoveAll(dir)
	now := time.Now()
	thr := now.AddDate(0, -6, 0)
	mk := func(name string, size int, mode os.FileMode, mt time.Time) {
		p := filepath.Join(dir, name)
		os.WriteFile(p, make([]byte, size), 0o644)
		os.Chmod(p, mode)
		os.Chtimes(p, mt, mt)
	}
	mk("plain", 0, 0o644, now.Add(-time.Hour))
	mk("with blank", 12345, 0o600, thr.Add(-48*time.Hour))
	mk("recent", 99999999, 0o755, thr.Add(48*time.Hour))
	mk("epoch", 1, 0o444, time.Unix(0, 0))
	mk("leapday", 100000000, 0o640, time.Date(2024, 2, 29, 23, 59, 59, 0, time.UTC))
	mk("y2038", 7, 0o664, time.Unix(2147483648, 0))
	mk("suid", 3, 0o755|os.ModeSetuid, time.Date(2025, 12, 31, 0, 0, 0, 0, time.UTC))
	mk("sticky", 3, 0o1777&0o777|os.ModeSticky, time.Date(2026, 1, 1, 0, 0, 1, 0, time.UTC))
	os.Link(filepath.Join(dir, "plain"), filepath.Join(dir, "second-name"))
	os.Mkdir(filepath.Join(dir, "sub"), 0o750)
	os.Mkdir(filepath.Join(dir, "sub", "x"), 0o755)
	os.Chtimes(filepath.Join(dir, "sub"), now, time.Date(2019, 7, 4, 12, 30, 0, 0, time.UTC))
	os.Symlink("plain", filepath.Join(dir, "lnk"))
	if os.Geteuid() == 0 {
		os.Chown(filepath.Join(dir, "recent"), 54321, 12345678)
		os.Chown(filepath.Join(dir, "epoch"), 1, 2)
	}
	userName := func(id uint32) string {
		if u, err := user.LookupId(fmt.Sprint(id)); err == nil {
			return u.Username
		}
		return fmt.Sprint(id)
	}
	groupName := func(id uint32) string {
		if g, err := user.LookupGroupId(fmt.Sprint(id)); err == nil {
			return g.Name
		}
		return fmt.Sprint(id)
	}
	for cfg := 0; cfg < 3; cfg++ {
		opt := pairOpt{alloc: cfg == 1}
		names := true // the os-backed server looks owner and group names up
		if cfg == 2 {
			h := dirListHandlers{dir: dir}
			opt = pairOpt{reqServer: true, handlers: sftp.Handlers{FileGet: h, FilePut: h, FileCmd: h, FileList: h}}
			names = false
		}
		rs, err := newRawSession(opt)
		if err != nil {
			c.Diag("listed long names: %v", err)
			return
		}
		resp, err := rs.do(rawPathOp(fxpOpendir, 1, dir))
		h := ""
		if err == nil {
			h, _ = resp.handle()
		}
		for h != "" {
			n0 := time.Now().Unix()
			r, err := rs.do(rawHandleOp(fxpReaddir, 2, h))
			n1 := time.Now().Unix() + 1
			if err != nil || r.Typ != fxpName || len(r.Body) < 4 {
				break
			}
			b := r.Body
			cnt := int(binary.BigEndian.Uint32(b))
			b = b[4:]
			str := func() (string, bool) {
				if len(b) < 4 {
					return "", false
				}
				l := int(binary.BigEndian.Uint32(b))
				if 4+l > len(b) {
					return "", false
				}
				s := string(b[4 : 4+l])
				b = b[4+l:]
				return s, true
			}
			for i := 0; i < cnt; i++ {
				name, ok1 := str()
				long, ok2 := str()
				if !ok1 || !ok2 || len(b) < 4 {
					break
				}
				fl := binary.BigEndian.Uint32(b)
				b = b[4:]
				var size uint64
				var uid, gid, perm, mtime uint32
				if fl&1 != 0 && len(b) >= 8 {
					size = binary.BigEndian.Uint64(b)
					b = b[8:]
				}
				if fl&2 != 0 && len(b) >= 8 {
					uid, gid = binary.BigEndian.Uint32(b), binary.BigEndian.Uint32(b[4:])
					b = b[8:]
				}
				if fl&4 != 0 && len(b) >= 4 {
					perm = binary.BigEndian.Uint32(b)
					b = b[4:]
				}
				if fl&8 != 0 && len(b) >= 8 {
					mtime = binary.BigEndian.Uint32(b[4:])
					b = b[8:]
				}
				if name == "." || name == ".." {
					continue
				}
				links := uint64(1)
				if fi, err := os.Lstat(filepath.Join(dir, name)); err == nil {
					if st, ok := fi.Sys().(*syscall.Stat_t); ok {
						links = uint64(st.Nlink)
					}
				}
				us, gs := strconv.FormatUint(uint64(uid), 10), strconv.FormatUint(uint64(gid), 10)
				if names {
					us, gs = userName(uid), groupName(gid)
				}
				args := []string{kvx("mode", uint64(perm)), kvx("links", links), kvh("uid", []byte(us)), kvh("gid", []byte(gs))}
				args = append(args, kvz("sneg", "sabs", int64(size))...)
				args = append(args, kvz("mneg", "mabs", int64(mtime))...)
				args = append(args, kvz("nneg0", "now0", n0)...)
				args = append(args, kvz("nneg1", "now1", n1)...)
				args = append(args, kvh("name", []byte(name)), kvi("cfg", cfg))
				cn := c.Case("runls", args...)
				c.NT(cn)
				c.Obs(cn, kvh("ls", []byte(long)))
				c.Oracle(cn, fl&15 == 15, "listed entry without the four attribute groups the long name is made of")
				c.Stat("runls_listed_entries")
			}
		}
		rs.Close()
	}
}
