package main

import (
	"bytes"
	"fmt"
	"io"
	"os"
	"path/filepath"
	"strings"
	"sync"

	"github.com/pkg/sftp"
)

// c15 kind cwrite: the single-packet operations of C15 include Write, which takes its position from the File's offset. G
// goroutines share ONE File and call Write k times each with distinct 64-byte blocks, all inside the pre-sized file (the
// size does not change). Atomic steps in some sequential order means: the file ends up holding every block exactly once, the
// blocks of one goroutine in the order it wrote them, every call reported 64 bytes and nil, and the offset stands at the end.
func c15ConcurrentWrites(c *Ctx, dir string) {
	const blk = 64
	reps := 16
	if c.Thorough() {
		reps = 200
	}
	for rep := 0; rep < reps; rep++ {
		be := []string{"os", "osalloc", "req", "reqalloc"}[rep%4]
		G, k := 2+rep%5, 3+rep%6
		total := G * k * blk
		initial := bytes.Repeat([]byte{0xEE}, total)
		c.Stat("cwrite_cases")
		var pr *pair
		var err error
		name := "/f"
		var mf *memFile
		switch be {
		case "os", "osalloc":
			name = filepath.Join(dir, fmt.Sprintf("cw%d", rep))
			os.WriteFile(name, initial, 0o644)
			pr, err = newPair(pairOpt{alloc: be == "osalloc"})
		default:
			fs := newMemFS()
			mf = fs.get("/f", true)
			mf.data = append([]byte(nil), initial...)
			pr, err = newPair(pairOpt{reqServer: true, handlers: fs.handlers(), alloc: be == "reqalloc"})
		}
		if err != nil {
			c.Diag("cwrite: %v", err)
			continue
		}
		f, err := pr.Client.OpenFile(name, os.O_RDWR)
		if err != nil {
			pr.Close()
			c.Diag("cwrite open: %v", err)
			continue
		}
		block := func(g, i int) []byte {
			b := make([]byte, blk)
			for x := range b {
				b[x] = byte(g*37 + i*11 + x)
			}
			b[0], b[1] = byte(g), byte(i)
			return b
		}
		var wg sync.WaitGroup
		var mu sync.Mutex
		why := ""
		start := make(chan struct{})
		for g := 0; g < G; g++ {
			wg.Add(1)
			go func(g int) {
				defer wg.Done()
				<-start
				for i := 0; i < k; i++ {
					n, err := f.Write(block(g, i))
					if n != blk || err != nil {
						mu.Lock()
						if why == "" {
							why = fmt.Sprintf("write-result: Write of a %d-byte block inside the extent returned (%d, %v)", blk, n, err)
						}
						mu.Unlock()
					}
				}
			}(g)
		}
		close(start)
		wg.Wait()
		off, serr := f.Seek(0, io.SeekCurrent)
		f.Close()
		pr.Close()
		var final []byte
		if mf != nil {
			mf.mu.Lock()
			final = append([]byte(nil), mf.data...)
			mf.mu.Unlock()
		} else {
			final, _ = os.ReadFile(name)
			os.Remove(name)
		}
		if why == "" && (serr != nil || off != int64(total)) {
			why = fmt.Sprintf("offset-after-writes: %d goroutines x %d Writes of %d bytes left the offset at %d (%v), want %d", G, k, blk, off, serr, total)
		}
		if why == "" && len(final) != total {
			why = fmt.Sprintf("file-size: %d bytes after the writes, want %d", len(final), total)
		}
		if why == "" {
			next := make([]int, G)
			for p := 0; p+blk <= len(final) && why == ""; p += blk {
				b := final[p : p+blk]
				g, i := int(b[0]), int(b[1])
				switch {
				case g >= G || i >= k || !bytes.Equal(b, block(g, i)):
					why = fmt.Sprintf("lost-write: position %d holds no block that was written (first bytes %x): an acknowledged Write vanished or was torn", p, b[:4])
				case i != next[g]:
					why = fmt.Sprintf("write-order: block %d of goroutine %d found where its block %d was due (duplicate or out of order)", i, g, next[g])
				default:
					next[g]++
				}
			}
		}
		// the writer of every position, for the model: call number g*k+i, 9999 for a position that holds no written block
		var layout []string
		for p := 0; p+blk <= len(final); p += blk {
			b := final[p : p+blk]
			g, i := int(b[0]), int(b[1])
			if g < G && i < k && bytes.Equal(b, block(g, i)) {
				layout = append(layout, fmt.Sprint(g*k+i))
			} else {
				layout = append(layout, "9999")
			}
		}
		cn := c.Case("cwrite", kvs("be", be), kvi("rep", rep), kvi("goroutines", G), kvi("writes", k), kvi("calls", G*k), kvs("layout", strings.Join(layout, ",")))
		c.NT(cn)
		c.Obs(cn, kvx("off", uint64(off/blk)))
		c.Oracle(cn, why == "", why)
	}
}

// c15 kind reopen: "one or several handles of the same file", with handles coming and going while others stay open. /y is opened,
// /x twice; the handle of /y is closed and /y opened again (three more times in a row: open, close the one before). Then four
// goroutines write distinct blocks through the two /x Files and the newest /y File and read them back through the same File.
// Every completed write is in the file its File was opened on and nowhere else; every read sees the writer's own earlier write.
func c15Reopen(c *Ctx, dir string) {
	const blk = 32
	reps := 8
	if c.Thorough() {
		reps = 80
	}
	for rep := 0; rep < reps; rep++ {
		be := []string{"req", "reqalloc", "os", "osalloc"}[rep%4]
		cn := c.Case("reopen", kvs("be", be), kvi("rep", rep))
		c.NT(cn)
		c.Stat("reopen_cases")
		var pr *pair
		var err error
		nx, ny := "/x", "/y"
		var mx, my *memFile
		size := 8 * blk
		switch be {
		case "os", "osalloc":
			nx, ny = filepath.Join(dir, fmt.Sprintf("rx%d", rep)), filepath.Join(dir, fmt.Sprintf("ry%d", rep))
			os.WriteFile(nx, bytes.Repeat([]byte{'x'}, size), 0o644)
			os.WriteFile(ny, bytes.Repeat([]byte{'y'}, size), 0o644)
			pr, err = newPair(pairOpt{alloc: be == "osalloc"})
		default:
			fs := newMemFS()
			mx, my = fs.get("/x", true), fs.get("/y", true)
			mx.data, my.data = bytes.Repeat([]byte{'x'}, size), bytes.Repeat([]byte{'y'}, size)
			pr, err = newPair(pairOpt{reqServer: true, handlers: fs.handlers(), alloc: be == "reqalloc"})
		}
		if err != nil {
			c.Oracle(cn, false, "harness: "+err.Error())
			continue
		}
		why := ""
		open := func(name string) *sftp.File {
			f, err := pr.Client.OpenFile(name, os.O_RDWR)
			if err != nil && why == "" {
				why = "harness: open " + name + ": " + err.Error()
			}
			return f
		}
		y := open(ny)
		x1 := open(nx)
		x2 := open(nx)
		for k := 0; k < 1+rep%3 && why == ""; k++ { // the older handle goes, a new one comes, while x1 and x2 stay open
			if y != nil {
				y.Close()
			}
			y = open(ny)
		}
		if why == "" {
			type job struct {
				f    *sftp.File
				slot int
				tag  byte
			}
			jobs := []job{{x1, 0, 'A'}, {x2, 1, 'B'}, {y, 2, 'C'}, {x2, 3, 'D'}, {x1, 4, 'E'}, {y, 5, 'F'}}
			var wg sync.WaitGroup
			var mu sync.Mutex
			for _, j := range jobs {
				wg.Add(1)
				go func(j job) {
					defer wg.Done()
					for round := 0; round < 4; round++ {
						b := bytes.Repeat([]byte{j.tag + byte(round)*8}, blk)
						if n, err := j.f.WriteAt(b, int64(j.slot*blk)); n != blk || err != nil {
							mu.Lock()
							if why == "" {
								why = fmt.Sprintf("write-result: WriteAt of a %d-byte block returned (%d, %v)", blk, n, err)
							}
							mu.Unlock()
							return
						}
						got := make([]byte, blk)
						if n, err := j.f.ReadAt(got, int64(j.slot*blk)); n != blk || (err != nil && err != io.EOF) || !bytes.Equal(got, b) {
							mu.Lock()
							if why == "" {
								why = fmt.Sprintf("read-own-write: after its WriteAt of %q.. completed, a ReadAt through the same File returned %q.. (n=%d err=%v): the handle serves another file or misses a completed write", b[:2], got[:2], n, err)
							}
							mu.Unlock()
							return
						}
					}
				}(j)
			}
			wg.Wait()
		}
		for _, f := range []*sftp.File{x1, x2, y} {
			if f != nil {
				f.Close()
			}
		}
		pr.Close()
		if why == "" {
			var fx, fy []byte
			if mx != nil {
				mx.mu.Lock()
				fx = append([]byte(nil), mx.data...)
				mx.mu.Unlock()
				my.mu.Lock()
				fy = append([]byte(nil), my.data...)
				my.mu.Unlock()
			} else {
				fx, _ = os.ReadFile(nx)
				fy, _ = os.ReadFile(ny)
			}
			wantX, wantY := bytes.Repeat([]byte{'x'}, size), bytes.Repeat([]byte{'y'}, size)
			for _, s := range []struct {
				slot int
				tag  byte
				y    bool
			}{{0, 'A', false}, {1, 'B', false}, {2, 'C', true}, {3, 'D', false}, {4, 'E', false}, {5, 'F', true}} {
				dst := wantX
				if s.y {
					dst = wantY
				}
				copy(dst[s.slot*blk:], bytes.Repeat([]byte{s.tag + 24}, blk))
			}
			switch {
			case !bytes.Equal(fx, wantX):
				why = "wrong-file: after the writes the file opened twice does not hold exactly the blocks written through its two Files"
			case !bytes.Equal(fy, wantY):
				why = "wrong-file: after the writes the re-opened file does not hold exactly the blocks written through its File"
			}
		}
		if be == "os" || be == "osalloc" {
			os.Remove(nx)
			os.Remove(ny)
		}
		c.Oracle(cn, why == "", why)
	}
}
