package main

import (
	"bytes"
	"fmt"
	"io"
	"os"
	"path/filepath"
	"strings"
	"sync"
)

// c15 kind cwrite: the single-packet operations of C15 include Write, which takes its position from the File's offset. G
// goroutines share ONE File and call Write k times each with distinct 64-byte blocks, all inside the pre-sized file (the
// size does not change). Atomic steps in some sequential order means: the file ends up holding every block exactly once, the
// blocks of one goroutine in the order it wrote them, every call reported 64 bytes and nil, and the offset stands at the end.
func c15ConcurrentWrites(c *Ctx, dir string) {
	const blk = 64
	reps := 16
	if c.Thorough() {
		reps = 200
	}
	for rep := 0; rep < reps; rep++ {
		be := []string{"os", "osalloc", "req", "reqalloc"}[rep%4]
		G, k := 2+rep%5, 3+rep%6
		total := G * k * blk
		initial := bytes.Repeat([]byte{0xEE}, total)
		c.Stat("cwrite_cases")
		var pr *pair
		var err error
		name := "/f"
		var mf *memFile
		switch be {
		case "os", "osalloc":
			name = filepath.Join(dir, fmt.Sprintf("cw%d", rep))
			os.WriteFile(name, initial, 0o644)
			pr, err = newPair(pairOpt{alloc: be == "osalloc"})
		default:
			fs := newMemFS()
			mf = fs.get("/f", true)
			mf.data = append([]byte(nil), initial...)
			pr, err = newPair(pairOpt{reqServer: true, handlers: fs.handlers(), alloc: be == "reqalloc"})
		}
		if err != nil {
			c.Diag("cwrite: %v", err)
			continue
		}
		f, err := pr.Client.OpenFile(name, os.O_RDWR)
		if err != nil {
			pr.Close()
			c.Diag("cwrite open: %v", err)
			continue
		}
		block := func(g, i int) []byte {
			b := make([]byte, blk)
			for x := range b {
				b[x] = byte(g*37 + i*11 + x)
			}
			b[0], b[1] = byte(g), byte(i)
			return b
		}
		var wg sync.WaitGroup
		var mu sync.Mutex
		why := ""
		start := make(chan struct{})
		for g := 0; g < G; g++ {
			wg.Add(1)
			go func(g int) {
				defer wg.Done()
				<-start
				for i := 0; i < k; i++ {
					n, err := f.Write(block(g, i))
					if n != blk || err != nil {
						mu.Lock()
						if why == "" {
							why = fmt.Sprintf("write-result: Write of a %d-byte block inside the extent returned (%d, %v)", blk, n, err)
						}
						mu.Unlock()
					}
				}
			}(g)
		}
		close(start)
		wg.Wait()
		off, serr := f.Seek(0, io.SeekCurrent)
		f.Close()
		pr.Close()
		var final []byte
		if mf != nil {
			mf.mu.Lock()
			final = append([]byte(nil), mf.data...)
			mf.mu.Unlock()
		} else {
			final, _ = os.ReadFile(name)
			os.Remove(name)
		}
		if why == "" && (serr != nil || off != int64(total)) {
			why = fmt.Sprintf("offset-after-writes: %d goroutines x %d Writes of %d bytes left the offset at %d (%v), want %d", G, k, blk, off, serr, total)
		}
		if why == "" && len(final) != total {
			why = fmt.Sprintf("file-size: %d bytes after the writes, want %d", len(final), total)
		}
		if why == "" {
			next := make([]int, G)
			for p := 0; p+blk <= len(final) && why == ""; p += blk {
				b := final[p : p+blk]
				g, i := int(b[0]), int(b[1])
				switch {
				case g >= G || i >= k || !bytes.Equal(b, block(g, i)):
					why = fmt.Sprintf("lost-write: position %d holds no block that was written (first bytes %x): an acknowledged Write vanished or was torn", p, b[:4])
				case i != next[g]:
					why = fmt.Sprintf("write-order: block %d of goroutine %d found where its block %d was due (duplicate or out of order)", i, g, next[g])
				default:
					next[g]++
				}
			}
		}
		// the writer of every position, for the model: call number g*k+i, 9999 for a position that holds no written block
		var layout []string
		for p := 0; p+blk <= len(final); p += blk {
			b := final[p : p+blk]
			g, i := int(b[0]), int(b[1])
			if g < G && i < k && bytes.Equal(b, block(g, i)) {
				layout = append(layout, fmt.Sprint(g*k+i))
			} else {
				layout = append(layout, "9999")
			}
		}
		cn := c.Case("cwrite", kvs("be", be), kvi("rep", rep), kvi("goroutines", G), kvi("writes", k), kvi("calls", G*k), kvs("layout", strings.Join(layout, ",")))
		c.NT(cn)
		c.Obs(cn, kvx("off", uint64(off/blk)))
		c.Oracle(cn, why == "", why)
	}
}
