package main

import (
	"io"
	"net"
	"time"

	"github.com/pkg/sftp"
)

type pairOpt struct {
	reqServer  bool
	alloc      bool
	maxTx      uint32
	workDir    string
	readOnly   bool
	handlers   sftp.Handlers
	startDir   string
	clientOpts []sftp.ClientOption
}

type pair struct {
	Client  *sftp.Client
	cliConn net.Conn
	srvConn net.Conn
	SrvDone chan error
}

// startServer runs a server of the requested kind on conn; returns the channel on which Serve's result arrives.
func startServer(conn io.ReadWriteCloser, o pairOpt) (chan error, error) {
	done := make(chan error, 1)
	if o.reqServer {
		var ro []sftp.RequestServerOption
		if o.alloc {
			ro = append(ro, sftp.WithRSAllocator())
		}
		if o.maxTx != 0 {
			ro = append(ro, sftp.WithRSMaxTxPacket(o.maxTx))
		}
		if o.startDir != "" {
			ro = append(ro, sftp.WithStartDirectory(o.startDir))
		}
		rs := sftp.NewRequestServer(conn, o.handlers, ro...)
		go func() { err := rs.Serve(); rs.Close(); done <- err }()
		return done, nil
	}
	var so []sftp.ServerOption
	if o.alloc {
		so = append(so, sftp.WithAllocator())
	}
	if o.maxTx != 0 {
		so = append(so, sftp.WithMaxTxPacket(o.maxTx))
	}
	if o.workDir != "" {
		so = append(so, sftp.WithServerWorkingDirectory(o.workDir))
	}
	if o.readOnly {
		so = append(so, sftp.ReadOnly())
	}
	s, err := sftp.NewServer(conn, so...)
	if err != nil {
		return nil, err
	}
	go func() { err := s.Serve(); conn.Close(); done <- err }()
	return done, nil
}

func newPair(o pairOpt) (*pair, error) {
	c1, c2 := net.Pipe()
	done, err := startServer(c2, o)
	if err != nil {
		return nil, err
	}
	cl, err := sftp.NewClientPipe(c1, c1, o.clientOpts...)
	if err != nil {
		c1.Close()
		return nil, err
	}
	return &pair{Client: cl, cliConn: c1, srvConn: c2, SrvDone: done}, nil
}

func (p *pair) Close() {
	p.Client.Close()
	select {
	case <-p.SrvDone:
	case <-time.After(5 * time.Second):
	}
}

// rawSession talks raw frames to a server.
type rawSession struct {
	conn    net.Conn
	SrvDone chan error
}

func newRawSession(o pairOpt) (*rawSession, error) {
	c1, c2 := net.Pipe()
	done, err := startServer(c2, o)
	if err != nil {
		return nil, err
	}
	rs := &rawSession{conn: c1, SrvDone: done}
	if _, err := c1.Write(rawInit()); err != nil {
		return nil, err
	}
	if _, err := readFrame(c1); err != nil {
		return nil, err
	}
	return rs, nil
}

// do sends one frame and reads one response.
func (s *rawSession) do(frame []byte) (*rawResp, error) {
	s.conn.SetDeadline(time.Now().Add(10 * time.Second))
	if _, err := s.conn.Write(frame); err != nil {
		return nil, err
	}
	return readFrame(s.conn)
}

func (s *rawSession) Close() {
	s.conn.Close()
	select {
	case <-s.SrvDone:
	case <-time.After(5 * time.Second):
	}
}
