package main

// Trace-acceptance ties (families pmt, alt, cct): the instrumented implementation (build tag verif, zz_verif_trace.go in
// /repo) records the events that the labelled-transition-system models of the packet manager (coq/Sched/PktMgr.v), the
// allocator (coq/Sched/Alloc.v) and the client connection (coq/Conn/ClientConn.v) are made of; the extracted models replay
// every recorded trace (coq/Sched/PktTrace.v, AllocTrace.v, Conn/ConnTrace.v). An event the model cannot follow is a
// mismatch between model and code.

import (
	"context"
	"errors"
	"fmt"
	"io"
	"math/rand"
	"net"
	"os"
	"path/filepath"
	"strings"
	"sync"
	"time"

	"github.com/pkg/sftp"
)

func init() {
	register("pmt", func(c *Ctx) { runServerTraces(c, "pm") })
	register("alt", func(c *Ctx) { runServerTraces(c, "al") })
	register("cct", runCCT)
}

func traceCount(tr []string, ev byte) int {
	n := 0
	for _, e := range tr {
		if e[0] == ev {
			n++
		}
	}
	return n
}

func traceJoin(tr []string) string {
	if len(tr) == 0 {
		return "-"
	}
	return strings.Join(tr, ",")
}

func traceEmitted(tr []string) string {
	var out []string
	for _, e := range tr {
		if e[0] == 'E' {
			out = append(out, e[1:])
		}
	}
	if len(out) == 0 {
		return "-"
	}
	return strings.Join(out, ",")
}

// maxInFlight: the largest number of requests dispatched (D) and not yet finished (F) at one moment of the trace.
func traceMaxInFlight(tr []string) int {
	cur, max := 0, 0
	for _, e := range tr {
		switch e[0] {
		case 'D':
			cur++
			if cur > max {
				max = cur
			}
		case 'F':
			cur--
		}
	}
	return max
}

func runServerTraces(c *Ctx, what string) {
	if what == "pm" {
		c.Rule("seeded request programs (the generator of c02: INIT, OPEN/OPENDIR, READ/WRITE bursts, READDIR, CLOSE, STAT family, MKDIR/REMOVE/RENAME/..., pipelined without waiting except where a handle must be known) against the os-backed server (temp dir) " +
			"and the request server (own store; gated backend calls released in seeded orders), allocator off and on, with the packet manager's trace points recording; the whole event trace (A arrive, D dispatch, F finished, Q/R controller receives, E emission) is replayed on the LTS of coq/Sched/PktMgr.v; " +
			"obs = accepted and the E events; oracle: when the client received every reply, the trace holds one E per A. non-trivial = at least 2 requests were in the workers at the same moment")
	} else {
		c.Rule("the same seeded request programs with the server allocator on (both servers; max-tx 0 and 32768+); the allocator's own event trace (G GetPage with the identity of the page returned, L ReleasePages, X Free, recorded inside the allocator mutex) is replayed on coq/Sched/Alloc.v: " +
			"every GetPage must hand out the page the model hands out, and the used/available counts at the moment of the snapshot (after the last reply; after Serve returned) must be the model's. non-trivial = at least 3 GetPage events and one page reused")
	}
	sftp.VerifTraceEnable(true)
	defer sftp.VerifTraceEnable(false)
	n := 400
	if c.Thorough() {
		n = 4000
	}
	stalled := 0
	for i := 0; i < n; i++ {
		if stalled >= 8 {
			c.Diag("%s traces: stopped after %d runs in which the server stopped answering", what, stalled)
			break
		}
		seed := c.Rng.Int63()
		k := c02Cfg{reqServer: i%2 == 1, alloc: what == "al" || i%4 >= 2}
		if what == "al" && i%3 == 2 {
			k.maxTx = 65536
		}
		depth := []int{6, 16, 40}[int(seed>>8)%3]
		gated := k.reqServer && i%4 != 3
		prog := pgGenProgram(rand.New(rand.NewSource(seed)), pgGenOpt{reqServer: k.reqServer, syncOpens: seed>>5&1 == 0, depth: depth, maxTx: k.maxTx, bigIO: what == "al" && i%5 == 0, fewIDs: seed>>6&3 == 0})
		hub := newPgHub()
		o := pgInstOpt{reqServer: k.reqServer, alloc: k.alloc, maxTx: k.maxTx, hub: hub}
		var g *pgGate
		var dir string
		if k.reqServer {
			g = newPgGate(!gated, hub)
			o.store = newPgStore(g)
			pgPopulateStore(o.store)
		} else {
			var err error
			if dir, err = os.MkdirTemp("", "vh-trace-"); err != nil {
				c.Diag("mktemp: %v", err)
				return
			}
			pgPopulateDir(dir)
			o.workDir = dir
		}
		in, err := pgStart(o)
		if err != nil {
			c.Diag("setup: %v", err)
			return
		}
		ro := pgRunOpt{permIdx: i % 24, permSeed: seed ^ 0x5bd1e995}
		if gated {
			ro.gate = g
		}
		res := pgRun(in, prog.reqs, ro)
		complete := !res.timedOut && len(res.resps) == len(prog.reqs)
		if res.timedOut {
			stalled++
		}
		var midAL []string
		var midUsed, midAvail int
		var midOK bool
		if what == "al" && complete {
			midAL, midUsed, midAvail, midOK = sftp.VerifALTrace(in.srv)
		}
		midPM := sftp.VerifPMTrace(in.srv)
		down := in.shutdown()
		if g != nil {
			g.setFree()
		}
		if dir != "" {
			os.RemoveAll(dir)
		}
		common := []string{kvs("srv", k.name()), kvb("alloc", k.alloc), kvx("maxtx", uint64(k.maxTx)), kvb("gated", gated), kvx("seed", uint64(seed)), kvi("reqs", len(prog.reqs))}
		if what == "pm" {
			tr := sftp.VerifPMTrace(in.srv)
			// a run in which the client received every reply and Serve returned must end quiescent in the model, with
			// one arrival per A event (C02_accepted_trace_complete then says: every request answered exactly once)
			settled := complete && down
			cn := c.Case("pmtrace", append(common, kvb("settled", settled), "tr="+traceJoin(tr))...)
			if settled {
				c.Obs(cn, "accepted=1", "emitted="+traceEmitted(tr), "quiescent=1", fmt.Sprintf("arrived=%d", traceCount(tr, 'A')))
			} else {
				c.Obs(cn, "accepted=1", "emitted="+traceEmitted(tr))
			}
			ok, why := true, ""
			if complete {
				if a, e := traceCount(midPM, 'A'), traceCount(midPM, 'E'); a != e {
					ok, why = false, fmt.Sprintf("responses-vs-requests: the client has %d replies but the packet manager recorded %d requests and %d emissions", len(res.resps), a, e)
				}
			}
			if ok && !down {
				ok, why = false, "server-hang: Serve did not return within 5 s of closing the connection"
			}
			c.Oracle(cn, ok, why)
			if traceMaxInFlight(tr) >= 2 {
				c.NT(cn)
			}
			c.Stat("pm_inflight_" + c02Bucket(traceMaxInFlight(tr)))
			c.Stat("pm_events_" + c02Bucket(len(tr)/10) + "0")
			if !complete {
				c.Stat("pm_incomplete_runs")
			}
			continue
		}
		emit := func(stage string, tr []string, used, avail int) {
			cn := c.Case("altrace", append(common, kvs("stage", stage), "tr="+traceJoin(tr))...)
			c.Obs(cn, "accepted=1", fmt.Sprintf("used=%d", used), fmt.Sprintf("avail=%d", avail))
			c.Oracle(cn, true, "")
			reused := false
			seen := map[string]bool{}
			for _, e := range tr {
				if e[0] == 'G' {
					p := e[strings.IndexByte(e, 'p'):]
					if seen[p] {
						reused = true
					}
					seen[p] = true
				}
			}
			if traceCount(tr, 'G') >= 3 && reused {
				c.NT(cn)
			}
			c.Stat("al_pages_" + c02Bucket(len(seen)))
		}
		if midOK {
			emit("idle", midAL, midUsed, midAvail)
		}
		if tr, used, avail, ok := sftp.VerifALTrace(in.srv); ok && down {
			emit("closed", tr, used, avail)
		}
	}
}

// ---------------------------------------------------------------------------------------------------- client connection

type cctGatedReader struct {
	mu   sync.Mutex
	head []byte
	cut  chan struct{}
}

func (r *cctGatedReader) Read(p []byte) (int, error) {
	r.mu.Lock()
	if len(r.head) > 0 {
		n := copy(p, r.head)
		r.head = r.head[n:]
		r.mu.Unlock()
		return n, nil
	}
	r.mu.Unlock()
	<-r.cut
	return 0, io.EOF
}

type cctSink struct{}

func (cctSink) Write(p []byte) (int, error) { return len(p), nil }
func (cctSink) Close() error                { return nil }

func cctWait(wg *sync.WaitGroup, d time.Duration) bool {
	done := make(chan struct{})
	go func() { wg.Wait(); close(done) }()
	select {
	case <-done:
		return true
	case <-time.After(d):
		return false
	}
}

func runCCT(c *Ctx) {
	c.Rule("kind live: a real Client against a real os-backed server over net.Pipe, 2-12 goroutines each issuing 4-12 calls (Lstat, ReadDir, Create+Write+Close, Open+ReadAt+Close, Rename, Remove) on one Client; the transport is cut (client end closed, server end closed, or never) after a seeded number of replies; " +
		"kind held: a Client on a reader that delivers the version packet and then blocks, and a writer that accepts everything; 0-6 calls are in flight, one request with an unbuffered result channel is registered through the verif hook so that the receiver's broadcast stops inside its critical section, the reader ends, 1-6 more calls are started while the broadcast is held, then it is released. " +
		"kind cancel: a peer that holds every reply; one ReadDirContext is cancelled while its OPENDIR is outstanding, 1-4 other calls are outstanding; the peer then answers the abandoned request first and the others in a seeded order: every other call must get the reply produced for its own request. " +
		"The connection's trace points (P putChannel, S- failed send, g getChannel, B broadcast, T result taken) are replayed on coq/Conn/ClientConn.v (obs accepted=1). oracle: every call returns within 10 s; after the cut every call returns an error; the held request fails with ErrSSHFxConnectionLost. " +
		"non-trivial = at least two requests were registered at the same moment, or (held) a call was started while the broadcast was held")
	sftp.VerifTraceEnable(true)
	defer sftp.VerifTraceEnable(false)
	nLive, nHeld := 150, 200
	if c.Thorough() {
		nLive, nHeld = 1500, 1500
	}
	root, err := os.MkdirTemp("", "vh-cct-")
	if err != nil {
		c.Diag("mktemp: %v", err)
		return
	}
	defer os.RemoveAll(root)
	liveHangs := 0
	for i := 0; i < nLive; i++ {
		if liveHangs >= 6 {
			c.Diag("cct live: stopped after %d hanging cases", liveHangs)
			break
		}
		seed := c.Rng.Int63()
		rng := rand.New(rand.NewSource(seed))
		dir := filepath.Join(root, fmt.Sprintf("l%d", i))
		os.Mkdir(dir, 0o755)
		os.WriteFile(filepath.Join(dir, "a.txt"), c04Pattern(5000, 7, 3), 0o644)
		G, K := 2+rng.Intn(11), 4+rng.Intn(9)
		cutMode := []string{"never", "client", "server"}[i%3]
		cutAfter := rng.Intn(G*K + 1)
		maxPkt := 1 << (9 + rng.Intn(6))
		opts := []sftp.ClientOption{sftp.MaxPacket(maxPkt), sftp.UseConcurrentReads(rng.Intn(2) == 0), sftp.UseConcurrentWrites(rng.Intn(2) == 0)}
		p, err := newPair(pairOpt{workDir: dir, clientOpts: opts})
		if err != nil {
			c.Diag("cct setup: %v", err)
			return
		}
		var mu sync.Mutex
		doneCalls, cutDone := 0, false
		cut := func() {
			switch cutMode {
			case "client":
				p.cliConn.Close()
			case "server":
				p.srvConn.Close()
			}
		}
		afterCutNil := 0
		note := func(err error) {
			mu.Lock()
			defer mu.Unlock()
			doneCalls++
			if cutMode != "never" && !cutDone && doneCalls >= cutAfter {
				cutDone = true
				cut()
			}
		}
		var wg sync.WaitGroup
		for gI := 0; gI < G; gI++ {
			wg.Add(1)
			go func(gI int, r *rand.Rand) {
				defer wg.Done()
				for k := 0; k < K; k++ {
					mu.Lock()
					wasCut := cutDone
					mu.Unlock()
					var err error
					name := fmt.Sprintf("/g%d_%d", gI, k)
					switch r.Intn(6) {
					case 0:
						_, err = p.Client.Lstat("/a.txt")
					case 1:
						_, err = p.Client.ReadDir("/")
					case 2:
						var f *sftp.File
						if f, err = p.Client.Create(name); err == nil {
							_, err = f.Write(c04Pattern(100+r.Intn(3000), 3, gI))
							if e2 := f.Close(); err == nil {
								err = e2
							}
						}
					case 3:
						var f *sftp.File
						if f, err = p.Client.Open("/a.txt"); err == nil {
							buf := make([]byte, 1+r.Intn(4000))
							_, err = f.ReadAt(buf, int64(r.Intn(1000)))
							if e2 := f.Close(); err == nil {
								err = e2
							}
						}
					case 4:
						err = p.Client.Rename("/nope"+name, name+"x")
						if err != nil && !wasCut {
							err = nil // the path does not exist: a status error is the right answer
						}
					case 5:
						err = p.Client.Remove(name + "missing")
						if err != nil && !wasCut {
							err = nil
						}
					}
					if wasCut && err == nil {
						mu.Lock()
						afterCutNil++
						mu.Unlock()
					}
					note(err)
				}
			}(gI, rand.New(rand.NewSource(seed+int64(gI)*7919)))
		}
		returned := cctWait(&wg, 10*time.Second)
		p.Close()
		if !returned {
			p.cliConn.Close()
			p.srvConn.Close()
			cctWait(&wg, 3*time.Second)
		}
		tr := sftp.VerifCCTrace(p.Client)
		cn := c.Case("cctrace", kvs("mode", "live"), kvs("cut", cutMode), kvi("goroutines", G), kvi("calls", K), kvi("cutafter", cutAfter), kvx("seed", uint64(seed)), kvb("settled", returned && maxPkt >= 4096), "tr="+traceJoin(tr))
		if returned && maxPkt >= 4096 {
			// every call has returned, none was cancelled, and every transfer of this run fits in one packet (so every request went
			// through clientConn.sendPacket; the chunk workers of multi-packet transfers read their result channels themselves):
			// every registered request's result was taken from its channel
			c.Obs(cn, "accepted=1", "unfinished=0")
		} else {
			c.Obs(cn, "accepted=1")
		}
		switch {
		case !returned:
			liveHangs++
			c.Oracle(cn, false, "call-hang: a call on the Client did not return within 10 s")
		case afterCutNil > 0:
			c.Oracle(cn, false, fmt.Sprintf("nil-after-loss: %d calls started after the transport was cut returned a nil error", afterCutNil))
		default:
			c.Oracle(cn, true, "")
		}
		// at least two registered at once: a P+ while another id is registered and not yet taken out
		reg, maxReg := 0, 0
		for _, e := range tr {
			switch {
			case e[0] == 'P' && strings.HasSuffix(e, "+"):
				reg++
				if reg > maxReg {
					maxReg = reg
				}
			case e[0] == 'g' && strings.HasSuffix(e, "+"):
				reg--
			case e[0] == 'B':
				reg = 0
			}
		}
		if maxReg >= 2 {
			c.NT(cn)
		}
		c.Stat("cct_live_cut_" + cutMode)
		c.Stat("cct_registered_" + c02Bucket(maxReg))
		os.RemoveAll(dir)
	}
	nCancel := 40
	if c.Thorough() {
		nCancel = 400
	}
	for i := 0; i < nCancel; i++ {
		cctCancelCase(c, i)
		cctCancelLossCase(c, i)
	}
	for i := 0; i < nCancel; i++ {
		cctLateCase(c, i)
	}
	hangs := 0
	for i := 0; i < nHeld; i++ {
		if hangs >= 6 {
			c.Diag("cct held: stopped after %d hanging cases", hangs)
			break
		}
		seed := c.Rng.Int63()
		rng := rand.New(rand.NewSource(seed))
		nBefore, nLate := rng.Intn(7), 1+rng.Intn(6)
		rd := &cctGatedReader{head: []byte{0, 0, 0, 5, 2, 0, 0, 0, 3}, cut: make(chan struct{})}
		cl, err := sftp.NewClientPipe(rd, cctSink{})
		if err != nil {
			c.Diag("cct held setup: %v", err)
			return
		}
		errs := make(chan error, nBefore+nLate)
		var wg sync.WaitGroup
		call := func(k int) {
			defer wg.Done()
			var err error
			switch k % 3 {
			case 0:
				_, err = cl.Lstat("/x")
			case 1:
				_, err = cl.ReadDir("/d")
			default:
				err = cl.Mkdir("/m")
			}
			errs <- err
		}
		for k := 0; k < nBefore; k++ {
			wg.Add(1)
			go call(k)
		}
		time.Sleep(time.Duration(rng.Intn(3)) * time.Millisecond)
		wait := sftp.VerifDispatchHeld(cl)
		close(rd.cut)
		time.Sleep(time.Duration(5+rng.Intn(30)) * time.Millisecond) // lets the receiver reach the held channel (no effect on what is expected)
		for k := 0; k < nLate; k++ {
			wg.Add(1)
			go call(nBefore + k)
		}
		time.Sleep(time.Duration(5+rng.Intn(30)) * time.Millisecond)
		heldErr := wait()
		returned := cctWait(&wg, 10*time.Second)
		closed := make(chan struct{})
		go func() { cl.Wait(); cl.Close(); close(closed) }()
		waitOK := true
		select {
		case <-closed:
		case <-time.After(5 * time.Second):
			waitOK = false
		}
		tr := sftp.VerifCCTrace(cl)
		cn := c.Case("cctrace", kvs("mode", "held"), kvi("before", nBefore), kvi("late", nLate), kvx("seed", uint64(seed)), "tr="+traceJoin(tr))
		c.Obs(cn, "accepted=1")
		nilErrs := 0
		if returned {
			close(errs)
			for e := range errs {
				if e == nil {
					nilErrs++
				}
			}
		}
		switch {
		case !returned:
			hangs++
			c.Oracle(cn, false, "call-hang: a call started around the receiver's shutdown did not return within 10 s of the broadcast being released")
		case heldErr != sftp.ErrSSHFxConnectionLost:
			c.Oracle(cn, false, fmt.Sprintf("held-request: failed with %v instead of ErrSSHFxConnectionLost", heldErr))
		case nilErrs > 0:
			c.Oracle(cn, false, fmt.Sprintf("nil-after-loss: %d calls on a dead connection returned a nil error", nilErrs))
		case !waitOK:
			c.Oracle(cn, false, "wait-hang: Wait/Close did not return within 5 s")
		default:
			c.Oracle(cn, true, "")
		}
		// a call was started while the broadcast was held: a P event after B
		seenB, lateP := false, false
		for _, e := range tr {
			if e[0] == 'B' {
				seenB = true
			} else if e[0] == 'P' && seenB {
				lateP = true
			}
		}
		if lateP {
			c.NT(cn)
		}
		c.Stat("cct_held_cases")
		if lateP {
			c.Stat("cct_held_put_after_broadcast")
		}
	}
}

// ---------------------------------------------------------------------------------------------------- cancelled calls
// kind cancel: a scripted peer holds every reply until told. Caller A issues ReadDirContext and its context is cancelled
// while the OPENDIR is outstanding; callers B1..Bk issue Stat / Lstat / ReadLink with a background context. The peer then
// answers A's abandoned request first (a server may legally still answer it) and the others afterwards, in a seeded order.
// Every B must get the reply the peer produced for its own request (sizes are distinct per request); A must have
// returned the context's error; the connection must still work afterwards.
type cctHeldPeer struct {
	conn    net.Conn
	mu      sync.Mutex
	pending []*rawResp
	arrived chan struct{}
}

func (p *cctHeldPeer) run() {
	fr, err := readFrame(p.conn)
	if err != nil || fr.Typ != fxpInit {
		return
	}
	p.conn.Write(frame((&rb{}).u8(fxpVersion).u32(3).b))
	for {
		fr, err := readFrame(p.conn)
		if err != nil {
			return
		}
		p.mu.Lock()
		p.pending = append(p.pending, fr)
		p.mu.Unlock()
		select {
		case p.arrived <- struct{}{}:
		default:
		}
	}
}

func (p *cctHeldPeer) waitFor(n int, d time.Duration) bool {
	deadline := time.After(d)
	for {
		p.mu.Lock()
		k := len(p.pending)
		p.mu.Unlock()
		if k >= n {
			return true
		}
		select {
		case <-p.arrived:
		case <-time.After(20 * time.Millisecond):
		case <-deadline:
			return false
		}
	}
}

func (p *cctHeldPeer) answer(fr *rawResp) {
	switch fr.Typ {
	case fxpOpendir, fxpOpen:
		p.conn.Write(frame(pkt(fxpHandle, fr.ID).str("hd").b))
	case fxpStat, fxpLstat, fxpFstat:
		// size = 4000 + request id: every request has its own answer
		p.conn.Write(frame(pkt(fxpAttrs, fr.ID).u32(1).u64(uint64(4000 + fr.ID)).b))
	case fxpReadlink, fxpRealpath:
		name := fmt.Sprintf("/target-%d", fr.ID)
		p.conn.Write(frame(pkt(fxpName, fr.ID).u32(1).str(name).str(name).u32(0).b))
	default:
		p.conn.Write(frame(pkt(fxpStatus, fr.ID).u32(0).str("").str("").b))
	}
}

func cctCancelCase(c *Ctx, i int) {
	c1, c2 := net.Pipe()
	peer := &cctHeldPeer{conn: c2, arrived: make(chan struct{}, 1)}
	go peer.run()
	defer c2.Close()
	cl, err := sftp.NewClientPipe(c1, c1)
	if err != nil {
		c.Diag("cct cancel setup: %v", err)
		return
	}
	rng := rand.New(rand.NewSource(int64(i)*7919 + 5))
	k := 1 + i%4
	ctx, cancel := context.WithCancel(context.Background())
	aErr := make(chan error, 1)
	go func() { _, err := cl.ReadDirContext(ctx, "/d"); aErr <- err }()
	problems := []string{}
	if !peer.waitFor(1, 5*time.Second) {
		problems = append(problems, "harness: the OPENDIR did not arrive")
	}
	type bres struct {
		kind string
		val  string
		err  error
	}
	bch := make(chan bres, k)
	for j := 0; j < k; j++ {
		go func(j int) {
			switch (i + j) % 3 {
			case 0:
				fi, err := cl.Stat("/s")
				v := ""
				if err == nil {
					v = fmt.Sprint(fi.Size())
				}
				bch <- bres{"stat", v, err}
			case 1:
				fi, err := cl.Lstat("/l")
				v := ""
				if err == nil {
					v = fmt.Sprint(fi.Size())
				}
				bch <- bres{"lstat", v, err}
			default:
				s, err := cl.ReadLink("/r")
				bch <- bres{"readlink", s, err}
			}
		}(j)
	}
	if !peer.waitFor(1+k, 5*time.Second) {
		problems = append(problems, "harness: not all requests arrived")
	}
	cancel()
	var aGot error
	select {
	case aGot = <-aErr:
	case <-time.After(5 * time.Second):
		problems = append(problems, "cancelled-call-hang: ReadDirContext did not return within 5 s of its context being cancelled")
	}
	// now the peer answers: the abandoned request first, the others in a seeded order
	peer.mu.Lock()
	reqs := append([]*rawResp(nil), peer.pending...)
	peer.mu.Unlock()
	if len(reqs) > 0 {
		peer.answer(reqs[0])
		rest := reqs[1:]
		for _, x := range rng.Perm(len(rest)) {
			peer.answer(rest[x])
		}
	}
	byKind := map[byte]string{fxpStat: "stat", fxpLstat: "lstat", fxpReadlink: "readlink"}
	want := map[string][]string{}
	for _, r := range reqs[1:] {
		if r.Typ == fxpReadlink {
			want["readlink"] = append(want["readlink"], fmt.Sprintf("/target-%d", r.ID))
		} else {
			want[byKind[r.Typ]] = append(want[byKind[r.Typ]], fmt.Sprint(4000+r.ID))
		}
	}
	for j := 0; j < k; j++ {
		select {
		case r := <-bch:
			if r.err != nil {
				problems = append(problems, fmt.Sprintf("wrong-reply: %s returned %v although the server answered its request", r.kind, r.err))
				continue
			}
			found := false
			for x, w := range want[r.kind] {
				if w == r.val {
					want[r.kind] = append(want[r.kind][:x], want[r.kind][x+1:]...)
					found = true
					break
				}
			}
			if !found {
				problems = append(problems, fmt.Sprintf("wrong-reply: %s returned %q, which the server sent to no outstanding %s request", r.kind, r.val, r.kind))
			}
		case <-time.After(5 * time.Second):
			problems = append(problems, "call-hang: a call whose request was answered did not return within 5 s")
		}
	}
	if aGot != nil && !errors.Is(aGot, context.Canceled) {
		problems = append(problems, fmt.Sprintf("cancelled call returned %v, not the context's error", aGot))
	}
	tr := sftp.VerifCCTrace(cl)
	cn := c.Case("cctrace", kvs("mode", "cancel"), kvi("others", k), kvi("i", i), "tr="+traceJoin(tr))
	c.NT(cn)
	c.Obs(cn, "accepted=1")
	if len(problems) > 0 {
		c.Oracle(cn, false, problems[0])
	} else {
		c.Oracle(cn, true, "")
	}
	c.Stat("cct_cancel_cases")
	c1.Close()
	cl.Close()
}

// cctLateCtx is a context that is never cancelled and whose Done method is slow: it returns only once `until` is closed (or
// after 2 s). clientConn.sendPacket evaluates ctx.Done() when it enters its select, that is after the request has been
// written: the caller is held in the window "request sent, not yet waiting for the reply".
type cctLateCtx struct {
	context.Context
	until <-chan struct{}
}

func (d cctLateCtx) Done() <-chan struct{} {
	select {
	case <-d.until:
	case <-time.After(2 * time.Second):
	}
	return nil
}

// cctLateCase (kind late): the reply to the only outstanding request is received completely, then the stream ends, and only
// after the receiver has finished its shutdown does the caller get to look at its channel. A reply delivered before the
// failure is what its caller takes (C04_delivered_survive): the trace must show the result taken as a reply, not as a loss.
func cctLateCase(c *Ctx, i int) {
	c1, c2 := net.Pipe()
	go func() { // the peer: VERSION, then a complete HANDLE reply to the first request, then the end of the stream
		defer c2.Close()
		fr, err := readFrame(c2)
		if err != nil || fr.Typ != fxpInit {
			return
		}
		c2.Write(frame((&rb{}).u8(fxpVersion).u32(3).b))
		fr, err = readFrame(c2)
		if err != nil {
			return
		}
		c2.Write(frame(pkt(fxpHandle, fr.ID).str("late-handle").b))
	}()
	cl, err := sftp.NewClientPipe(c1, c1)
	if err != nil {
		c.Diag("cct late setup: %v", err)
		c1.Close()
		return
	}
	until := make(chan struct{})
	go func() { cl.Wait(); close(until) }()
	done := make(chan error, 1)
	go func() {
		_, err := cl.ReadDirContext(cctLateCtx{context.Background(), until}, "/d")
		done <- err
	}()
	returned, callErr := true, error(nil)
	select {
	case callErr = <-done:
	case <-time.After(10 * time.Second):
		returned = false
	}
	cl.Close()
	tr := sftp.VerifCCTrace(cl)
	cn := c.Case("cctrace", kvs("mode", "late"), kvi("i", i), kvb("settled", returned), "tr="+traceJoin(tr))
	c.NT(cn)
	c.Stat("cct_late_cases")
	if !returned {
		c.Obs(cn, "accepted=1")
		c.Oracle(cn, false, "call-hang: ReadDirContext did not return within 10 s")
		return
	}
	c.Obs(cn, "accepted=1", "unfinished=0")
	// the OPENDIR's reply arrived whole: its result must have been taken as a reply (T..o); the READDIR that follows finds the
	// connection gone, so the call as a whole ends with an error
	tookReply := false
	for _, e := range tr {
		if e[0] == 'T' && strings.HasSuffix(e, "o") {
			tookReply = true
		}
	}
	switch {
	case !tookReply:
		c.Oracle(cn, false, "delivered-reply-lost: the HANDLE reply to the OPENDIR was received completely before the stream ended, but its caller did not take it (trace: "+truncs(traceJoin(tr))+")")
	case callErr == nil:
		c.Oracle(cn, false, "nil-after-loss: ReadDirContext returned a nil error although the connection was lost before its READDIR")
	default:
		c.Oracle(cn, true, "")
	}
}

// kind cancelloss (C04): 1-3 ReadDirContext calls are abandoned (context cancelled while their OPENDIR is outstanding, the
// peer never answers), 0-3 other calls are outstanding, then the connection is lost. Every outstanding call must fail, a
// call made after the loss must fail and not hang, Wait and Close must return.
func cctCancelLossCase(c *Ctx, i int) {
	c1, c2 := net.Pipe()
	peer := &cctHeldPeer{conn: c2, arrived: make(chan struct{}, 1)}
	go peer.run()
	defer c2.Close()
	cl, err := sftp.NewClientPipe(c1, c1)
	if err != nil {
		c.Diag("cct cancelloss setup: %v", err)
		return
	}
	abandoned := 1 + i%3
	k := (i / 3) % 4
	problems := []string{}
	ctx, cancel := context.WithCancel(context.Background())
	aErr := make(chan error, abandoned)
	for a := 0; a < abandoned; a++ {
		go func(a int) { _, err := cl.ReadDirContext(ctx, fmt.Sprintf("/d%d", a)); aErr <- err }(a)
	}
	bch := make(chan error, k)
	for j := 0; j < k; j++ {
		go func(j int) { _, err := cl.Stat(fmt.Sprintf("/s%d", j)); bch <- err }(j)
	}
	if !peer.waitFor(abandoned+k, 5*time.Second) {
		problems = append(problems, "harness: not all requests arrived")
	}
	cancel()
	for a := 0; a < abandoned; a++ {
		select {
		case <-aErr:
		case <-time.After(5 * time.Second):
			problems = append(problems, "cancelled-call-hang: ReadDirContext did not return within 5 s of its context being cancelled")
		}
	}
	c2.Close() // the connection is lost
	for j := 0; j < k; j++ {
		select {
		case err := <-bch:
			if err == nil {
				problems = append(problems, "call-succeeded-after-loss: a call whose request was never answered returned no error")
			}
		case <-time.After(5 * time.Second):
			problems = append(problems, "hang: a call outstanding when the connection was lost did not return within 5 s")
		}
	}
	for n := 0; n < 3; n++ { // calls made after the loss
		late := make(chan error, 1)
		go func() { _, err := cl.Stat("/late"); late <- err }()
		select {
		case err := <-late:
			if err == nil {
				problems = append(problems, "call-succeeded-after-loss: a call made after the connection was lost returned no error")
			}
		case <-time.After(5 * time.Second):
			problems = append(problems, "hang: a call made after the connection was lost (and after abandoned calls) did not return within 5 s")
		}
	}
	wch := make(chan struct{})
	go func() { cl.Wait(); close(wch) }()
	select {
	case <-wch:
	case <-time.After(5 * time.Second):
		problems = append(problems, "hang: Wait did not return within 5 s of the connection being lost")
	}
	cch := make(chan struct{})
	go func() { cl.Close(); close(cch) }()
	select {
	case <-cch:
	case <-time.After(5 * time.Second):
		problems = append(problems, "hang: Close did not return within 5 s of the connection being lost")
	}
	tr := sftp.VerifCCTrace(cl)
	cn := c.Case("cctrace", kvs("mode", "cancelloss"), kvi("abandoned", abandoned), kvi("others", k), kvi("i", i), "tr="+traceJoin(tr))
	c.NT(cn)
	c.Obs(cn, "accepted=1")
	if len(problems) > 0 {
		c.Oracle(cn, false, problems[0])
	} else {
		c.Oracle(cn, true, "")
	}
	c.Stat("cct_cancelloss_cases")
	c1.Close()
}
