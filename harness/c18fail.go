package main

import (
	"bytes"
	"errors"
	"fmt"
	"net"
	"os"
	"path/filepath"
	"sync"
	"time"

	"github.com/pkg/sftp"
)

// c18 kind failsend: "once all responses are out no buffer is still marked in use" when one of them could not be written. The
// server's transport refuses the Write of one response (a transient fault: the session goes on, as it does in the code: the
// packet manager disposes of the response either way); later requests are answered as usual. With the server idle again, no
// page of the allocator is marked in use beyond what the idle server held before - a response the transport refused is as much
// "out" as one it took.
type c18FlakyConn struct {
	net.Conn
	mu       sync.Mutex
	failNext int
	failed   int
}

func (f *c18FlakyConn) Write(b []byte) (int, error) {
	f.mu.Lock()
	if f.failNext > 0 {
		f.failNext--
		f.failed++
		f.mu.Unlock()
		return 0, errors.New("transient write fault")
	}
	f.mu.Unlock()
	return f.Conn.Write(b)
}

func c18FailedSends(c *Ctx) {
	dir, err := os.MkdirTemp("", "vh-c18fs-")
	if err != nil {
		return
	}
	defer os.RemoveAll(dir)
	for _, reqServer := range []bool{false, true} {
		for _, victim := range []string{"read", "write", "stat"} {
			for rep := 0; rep < 2; rep++ {
				cn := c.Case("failsend", kvs("srv", c02Cfg{reqServer: reqServer}.name()), kvs("victim", victim), kvi("rep", rep))
				c.NT(cn)
				c.Stat("cases_failsend")
				c1, c2 := net.Pipe()
				fc := &c18FlakyConn{Conn: c2}
				name := "/f"
				var srv any
				done := make(chan error, 1)
				if reqServer {
					fs := newMemFS()
					fs.get("/f", true).data = bytes.Repeat([]byte{'r'}, 5000)
					rs := sftp.NewRequestServer(fc, fs.handlers(), sftp.WithRSAllocator())
					srv = rs
					go func() { done <- rs.Serve(); rs.Close() }()
				} else {
					name = filepath.Join(dir, "f")
					os.WriteFile(name, bytes.Repeat([]byte{'r'}, 5000), 0o644)
					s, err := sftp.NewServer(fc, sftp.WithAllocator())
					if err != nil {
						c.Oracle(cn, false, "harness: "+err.Error())
						continue
					}
					srv = s
					go func() { done <- s.Serve(); fc.Close() }()
				}
				why := ""
				do := func(fr []byte) *rawResp {
					c1.SetDeadline(time.Now().Add(5 * time.Second))
					if _, err := c1.Write(fr); err != nil {
						why = "harness: write: " + err.Error()
						return nil
					}
					r, err := readFrame(c1)
					if err != nil {
						why = "no-response: " + err.Error()
						return nil
					}
					return r
				}
				do(rawInit())
				h := ""
				if r := do(rawOpen(1, name, 3, 0, nil)); r != nil {
					h, _ = r.handle()
				}
				if why == "" && h == "" {
					why = "harness: open refused"
				}
				// what the idle server holds (the receive loop has a page in hand for the request it is waiting for)
				settle := func(want int) (int, bool) {
					used, ok := 0, false
					deadline := time.Now().Add(2 * time.Second)
					for time.Now().Before(deadline) {
						if used, _, ok = sftp.VerifAllocCounts(srv); !ok || used == want {
							break
						}
						time.Sleep(5 * time.Millisecond)
					}
					return used, ok
				}
				idle := -1
				if why == "" {
					do(rawPathOp(fxpStat, 3, name))
					u1, ok := settle(-1)
					time.Sleep(20 * time.Millisecond)
					u2, _ := settle(u1)
					if !ok {
						why = "harness: no allocator behind the server"
					}
					idle = u2
				}
				if why == "" {
					// the victim's response is refused by the transport: nothing arrives for it
					fc.mu.Lock()
					fc.failNext = 1
					fc.mu.Unlock()
					var fr []byte
					switch victim {
					case "read":
						fr = rawRead(2, h, 0, 3000)
					case "write":
						fr = rawWrite(2, h, 100, bytes.Repeat([]byte{'w'}, 2000))
					default:
						fr = rawPathOp(fxpStat, 2, name)
					}
					c1.SetDeadline(time.Now().Add(5 * time.Second))
					c1.Write(fr)
					deadline := time.Now().Add(3 * time.Second)
					for time.Now().Before(deadline) {
						fc.mu.Lock()
						n := fc.failed
						fc.mu.Unlock()
						if n > 0 {
							break
						}
						time.Sleep(time.Millisecond)
					}
					// the session goes on
					for k := 0; k < 3 && why == ""; k++ {
						if r := do(rawRead(uint32(10+k), h, uint64(k*1000), 1000)); r != nil && r.ID != uint32(10+k) {
							why = fmt.Sprintf("wrong-id: after a response the transport refused, the next response carries id %d, want %d", r.ID, 10+k)
						}
					}
				}
				if why == "" {
					if used, _ := settle(idle); used != idle {
						why = fmt.Sprintf("pages-in-use-when-idle: %d allocator pages are marked in use with every response out, %d before (one response, to a %s, was refused by the transport; three later requests were answered)", used, idle, victim)
					}
				}
				c1.Close()
				select {
				case <-done:
				case <-time.After(5 * time.Second):
					if why == "" {
						why = "server-hang: Serve did not return within 5 s of closing the connection"
					}
				}
				c.Oracle(cn, why == "", why)
			}
		}
	}
}
