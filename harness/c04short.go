package main

import (
	"fmt"
	"io"
	"net"
	"os"
	"time"

	"github.com/pkg/sftp"
)

// c04 kind shortread: the connection is lost while the SECOND request of one call is outstanding. The peer answers a READ with
// fewer bytes than asked for (legal: a server may deliver less, and the client asks again for the rest), and the link goes down
// while that follow-up READ is in flight - dropped in both directions, the reply direction ended, or the follow-up never written.
// The call was outstanding when the connection was lost: it returns an error, in bounded time (and ReadAt never hands back a
// short buffer with a nil error).
func c04ShortReads(c *Ctx) {
	reps := 2
	if c.Thorough() {
		reps = 12
	}
	for rep := 0; rep < reps; rep++ {
		for _, api := range []string{"readat", "read", "writeto"} {
			for _, how := range []string{"drop", "halfclose", "deadwrite"} {
				for _, cr := range []bool{false, true} {
					cn := c.Case("shortread", kvs("api", api), kvs("how", how), kvb("cr", cr), kvi("rep", rep))
					c.NT(cn)
					c.Stat("shortread_cases")
					c1, c2 := net.Pipe()
					go func() {
						defer c2.Close()
						reads := 0
						for {
							fr, err := readFrame(c2)
							if err != nil {
								return
							}
							switch fr.Typ {
							case fxpInit:
								c2.Write(frame((&rb{}).u8(fxpVersion).u32(3).b))
							case fxpOpen:
								c2.Write(frame(pkt(fxpHandle, fr.ID).str("h").b))
							case fxpStat, fxpFstat, fxpLstat:
								c2.Write(frame(pkt(fxpAttrs, fr.ID).raw(c04Attrs(100000, false)).b))
							case fxpRead:
								reads++
								if reads == 1 {
									c2.Write(frame(pkt(fxpData, fr.ID).str(string(c04Pattern(200, 7, 3))).b)) // 200 of the 400+ bytes asked for
									if how == "deadwrite" {
										// the follow-up request will not even be taken: the peer is gone before it is written
										return
									}
									continue
								}
								if how == "halfclose" {
									if cw, ok := c2.(interface{ CloseWrite() error }); ok {
										cw.CloseWrite()
										io.Copy(io.Discard, c2)
									}
								}
								return // drop
							default:
								c2.Write(frame(pkt(fxpStatus, fr.ID).u32(0).str("").str("").b))
							}
						}
					}()
					cl, err := sftp.NewClientPipe(c1, c1, sftp.UseConcurrentReads(cr))
					if err != nil {
						c1.Close()
						c.Oracle(cn, false, "harness: session setup failed")
						continue
					}
					f, err := cl.OpenFile("/f", os.O_RDONLY)
					if err != nil {
						cl.Close()
						c.Oracle(cn, false, "harness: open failed")
						continue
					}
					type res struct {
						n   int64
						err error
					}
					done := make(chan res, 1)
					go func() {
						buf := make([]byte, 400)
						switch api {
						case "readat":
							n, err := f.ReadAt(buf, 0)
							done <- res{int64(n), err}
						case "read":
							n, err := f.Read(buf)
							done <- res{int64(n), err}
						default:
							n, err := f.WriteTo(io.Discard)
							done <- res{n, err}
						}
					}()
					why := ""
					select {
					case r := <-done:
						if r.err == nil {
							why = fmt.Sprintf("outstanding-call-no-error: the connection was lost while the follow-up READ of %s was outstanding (the first READ had been answered with 200 of the bytes asked for) and the call returned n=%d err=nil", api, r.n)
						}
					case <-time.After(5 * time.Second):
						why = fmt.Sprintf("hang: %s did not return within 5 s of the connection being lost during its follow-up READ", api)
					}
					c1.Close()
					cl.Close()
					c.Oracle(cn, why == "", why)
				}
			}
		}
	}
}
