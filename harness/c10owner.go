package main

import (
	"fmt"
	"io"
	"os"
	"path/filepath"

	"github.com/pkg/sftp"
)

// c10 kind ownergiven: "attributes as given" for the owner. The handler answers STAT / LSTAT (and the listing behind ReadDir)
// with entries that WRAP a host os.FileInfo (Sys() is the platform's stat structure, owned by whoever runs the harness) and
// report another owner through FileInfoUidGid - a virtual file system over real files. What the client sees is the owner the
// handler reported, never the backing file's.
type c10OwnerHandlers struct {
	nullHandlers
	fi os.FileInfo
}

type c10OneLister struct{ fi os.FileInfo }

func (l c10OneLister) ListAt(out []os.FileInfo, off int64) (int, error) {
	if off > 0 || len(out) == 0 {
		return 0, io.EOF
	}
	out[0] = l.fi
	return 1, io.EOF
}

func (h c10OwnerHandlers) Filelist(r *sftp.Request) (sftp.ListerAt, error) {
	return c10OneLister{h.fi}, nil
}

func c10OwnerGiven(c *Ctx) {
	dir, err := os.MkdirTemp("", "vh-c10own-")
	if err != nil {
		return
	}
	defer os.RemoveAll(dir)
	name := filepath.Join(dir, "backing")
	os.WriteFile(name, []byte("abc"), 0o640)
	host, err := os.Lstat(name)
	if err != nil {
		return
	}
	for i, ids := range [][2]uint32{{54321, 12345}, {0, 0}, {4294967295, 65534}, {1, 2}, {1000, 0}} {
		fi := c17Owned{host, ids[0], ids[1]}
		h := c10OwnerHandlers{fi: fi}
		p, err := newPair(pairOpt{reqServer: true, handlers: sftp.Handlers{FileGet: h, FilePut: h, FileCmd: h, FileList: h}})
		if err != nil {
			c.Diag("ownergiven pair: %v", err)
			return
		}
		for _, op := range []string{"stat", "lstat", "readdir"} {
			var got os.FileInfo
			var gerr error
			switch op {
			case "stat":
				got, gerr = p.Client.Stat("/v")
			case "lstat":
				got, gerr = p.Client.Lstat("/v")
			default:
				var l []os.FileInfo
				if l, gerr = p.Client.ReadDir("/"); gerr == nil && len(l) == 1 {
					got = l[0]
				} else if gerr == nil {
					gerr = fmt.Errorf("%d entries", len(l))
				}
			}
			n := c.Case("ownergiven", kvs("op", op), kvi("i", i), kvx("uid", uint64(ids[0])), kvx("gid", uint64(ids[1])))
			c.NT(n)
			c.Stat("ownergiven_cases")
			st, _ := func() (*sftp.FileStat, bool) {
				if got == nil {
					return nil, false
				}
				s, ok := got.Sys().(*sftp.FileStat)
				return s, ok
			}()
			switch {
			case gerr != nil || st == nil:
				c.Oracle(n, false, fmt.Sprintf("ownergiven: %s failed: %v", op, gerr))
			case st.UID != ids[0] || st.GID != ids[1]:
				c.Oracle(n, false, fmt.Sprintf("owner-not-as-given: the handler's entry reports owner %d:%d through FileInfoUidGid, the client sees %d:%d (%s)", ids[0], ids[1], st.UID, st.GID, op))
			default:
				c.Oracle(n, true, "")
			}
		}
		p.Close()
	}
}
