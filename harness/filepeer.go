package main

// filePeer: a scripted SFTP peer serving ONE file from memory, with a failure plan keyed by offset, a maximum DATA
// payload, and optional permutation of the replies to outstanding requests. Requests are read continuously; replies
// are written by a separate goroutine (a synchronous pipe must never see both sides blocked in Write).

import (
	"encoding/binary"
	"math/rand"
	"net"
	"sync"
	"time"
)

type filePeer struct {
	mu         sync.Mutex
	store      []byte
	maxTx      int
	rfail      map[uint64]uint32
	wfail      map[uint64]uint32
	regular    bool
	permute    bool
	rng        *rand.Rand
	window     int
	reqLog     []string // "R off len" / "W off len"
	closes     int
	afterClose int // requests carrying the handle seen after CLOSE
	closed     bool
	reorders   int
	emptyData  bool   // answer READ with empty DATA (never at EOF)
	failClose  uint32 // non-zero: CLOSE is answered with this status code
	arrivals   []byte // the order in which requests carrying the handle ('r') and CLOSE requests ('c') arrived
	modeKind   int    // files that are not regular: 0 a character device (0020644); 1 permissions without any type bits (0644); 2 no permissions attribute at all
	statSize   int    // what STAT / FSTAT report as the size; 0 = the true size, k+1 = k (a server may report 0 for a file that has content)
}

func (p *filePeer) attrsBody() []byte {
	mode := uint32(0o100644)
	if !p.regular {
		mode = 0o020644
		if p.modeKind == 1 {
			mode = 0o644
		}
	}
	size := uint64(len(p.store))
	if p.statSize > 0 {
		size = uint64(p.statSize - 1)
	}
	if !p.regular && p.modeKind == 2 {
		return (&rb{}).u32(0x9).u64(size).u32(1700000000).u32(1700000000).b
	}
	return (&rb{}).u32(0xd).u64(size).u32(mode).u32(1700000000).u32(1700000000).b
}

func (p *filePeer) handle(fr *rawResp) []byte {
	p.mu.Lock()
	defer p.mu.Unlock()
	id := fr.ID
	status := func(code uint32) []byte { return pkt(fxpStatus, id).u32(code).str("x").str("").b }
	body := fr.Body
	str := func() (string, bool) {
		if len(body) < 4 {
			return "", false
		}
		l := int(binary.BigEndian.Uint32(body))
		if l+4 > len(body) {
			return "", false
		}
		s := string(body[4 : 4+l])
		body = body[4+l:]
		return s, true
	}
	switch fr.Typ {
	case fxpFstat, fxpFsetstat, fxpRead, fxpWrite:
		p.arrivals = append(p.arrivals, 'r')
	case fxpClose:
		p.arrivals = append(p.arrivals, 'c')
	}
	switch fr.Typ {
	case fxpOpen:
		return pkt(fxpHandle, id).str("h").b
	case fxpClose:
		p.closes++
		p.closed = true
		if p.failClose != 0 {
			return status(p.failClose) // the server closed the handle but reports a failure (e.g. a deferred write error)
		}
		return status(0)
	case fxpStat, fxpLstat, fxpFstat:
		if fr.Typ == fxpFstat && p.closed {
			p.afterClose++
		}
		return pkt(fxpAttrs, id).raw(p.attrsBody()).b
	case fxpFsetstat:
		if p.closed {
			p.afterClose++
		}
		if _, ok := str(); ok && len(body) >= 4 {
			fl := binary.BigEndian.Uint32(body)
			if fl&1 != 0 && len(body) >= 12 {
				sz := int(binary.BigEndian.Uint64(body[4:]))
				if sz < len(p.store) {
					p.store = p.store[:sz]
				} else {
					p.store = append(p.store, make([]byte, sz-len(p.store))...)
				}
			}
		}
		return status(0)
	case fxpRead:
		if p.closed {
			p.afterClose++
		}
		if _, ok := str(); !ok || len(body) < 12 {
			return status(5)
		}
		off := binary.BigEndian.Uint64(body)
		l := int(binary.BigEndian.Uint32(body[8:]))
		p.reqLog = append(p.reqLog, "R")
		if c, bad := p.rfail[off]; bad {
			return status(c)
		}
		if off >= uint64(len(p.store)) {
			return status(1)
		}
		if p.emptyData {
			return pkt(fxpData, id).str("").b
		}
		if l > p.maxTx {
			l = p.maxTx
		}
		end := int(off) + l
		if end > len(p.store) {
			end = len(p.store)
		}
		return pkt(fxpData, id).u32(uint32(end - int(off))).raw(p.store[off:end]).b
	case fxpWrite:
		if p.closed {
			p.afterClose++
		}
		if _, ok := str(); !ok || len(body) < 12 {
			return status(5)
		}
		off := binary.BigEndian.Uint64(body)
		l := int(binary.BigEndian.Uint32(body[8:]))
		data := body[12:]
		if l > len(data) {
			return status(5)
		}
		data = data[:l]
		p.reqLog = append(p.reqLog, "W")
		if c, bad := p.wfail[off]; bad {
			return status(c)
		}
		if need := int(off) + l; l > 0 && need > len(p.store) {
			p.store = append(p.store, make([]byte, need-len(p.store))...)
		}
		if l > 0 {
			copy(p.store[off:], data)
		}
		return status(0)
	}
	return status(8)
}

// serve runs the peer on conn until the connection ends.
func (p *filePeer) serve(conn net.Conn) {
	defer conn.Close()
	fr, err := readFrame(conn)
	if err != nil || fr.Typ != fxpInit {
		return
	}
	conn.Write(frame((&rb{}).u8(fxpVersion).u32(3).b))
	outq := make(chan []byte, 8192)
	var wg sync.WaitGroup
	wg.Add(1)
	go func() {
		defer wg.Done()
		for b := range outq {
			if _, err := conn.Write(b); err != nil {
				for range outq {
				}
				return
			}
		}
	}()
	defer func() { close(outq); wg.Wait() }()
	in := make(chan *rawResp, 8192)
	go func() {
		defer close(in)
		for {
			fr, err := readFrame(conn)
			if err != nil {
				return
			}
			in <- fr
		}
	}()
	if !p.permute {
		for fr := range in {
			outq <- frame(p.handle(fr))
		}
		return
	}
	// permuting mode: gather what is outstanding (up to window, or until 3 ms of silence), answer in arrival order
	// (the store sees the requests in arrival order) but release the replies in a seeded permutation
	for {
		fr, ok := <-in
		if !ok {
			return
		}
		batch := [][]byte{frame(p.handle(fr))}
	gather:
		for len(batch) < p.window {
			select {
			case fr, ok := <-in:
				if !ok {
					break gather
				}
				batch = append(batch, frame(p.handle(fr)))
			case <-time.After(3 * time.Millisecond):
				break gather
			}
		}
		perm := p.rng.Perm(len(batch))
		for i, j := range perm {
			if i != j {
				p.mu.Lock()
				p.reorders++
				p.mu.Unlock()
			}
			outq <- batch[j]
		}
	}
}
