package main

// C01 — transferred bytes are exactly the file's bytes (no failures injected).

import (
	"bytes"
	"fmt"
)

func init() { register("c01", runC01) }

func spliceRef(f []byte, off int, d []byte) []byte {
	out := append([]byte(nil), f...)
	if len(d) == 0 {
		return out
	}
	if need := off + len(d); need > len(out) {
		out = append(out, make([]byte, need-len(out))...)
	}
	copy(out[off:], d)
	return out
}

// oracleExact checks a failure-free transfer against the file content itself.
func oracleExact(x *xcase, r *xresult) (bool, string) {
	initial := patternBytes(0, x.flen)
	data := patternBytes(1000, x.n)
	switch x.api {
	case "readat", "read":
		want := 0
		if x.off < x.flen {
			want = x.flen - x.off
			if want > x.n {
				want = x.n
			}
		}
		if int(r.n) != want || !bytes.Equal(r.data, initial[min(x.off, x.flen):min(x.off, x.flen)+want]) {
			return false, fmt.Sprintf("%s returned %d bytes %x, the file holds %d bytes there", x.api, r.n, trunc(r.data), want)
		}
		if (want == x.n) != (r.err == nil) {
			return false, fmt.Sprintf("%s: n=%d of %d but err=%v", x.api, r.n, x.n, r.err)
		}
		if r.err != nil && xerrKind(r.err) != "eof" {
			return false, fmt.Sprintf("%s: unexpected error %v", x.api, r.err)
		}
		wantOff := 0
		if x.api == "read" {
			wantOff = x.off + want
		}
		if int(r.foff) != wantOff {
			return false, fmt.Sprintf("offset after %s is %d, want %d", x.api, r.foff, wantOff)
		}
	case "writeto":
		var want []byte
		if x.off < x.flen {
			want = initial[x.off:]
		}
		if !bytes.Equal(r.data, want) || int(r.n) != len(want) || r.err != nil {
			return false, fmt.Sprintf("WriteTo delivered %d bytes (n=%d, err=%v), the file holds %d from the offset", len(r.data), r.n, r.err, len(want))
		}
		if int(r.foff) != x.off+len(want) {
			return false, fmt.Sprintf("offset after WriteTo is %d, want %d", r.foff, x.off+len(want))
		}
	default:
		want := spliceRef(initial, x.off, data)
		if !bytes.Equal(r.file, want) {
			return false, fmt.Sprintf("%s: served file differs from the bytes written at the intended offsets (len %d vs %d)", x.api, len(r.file), len(want))
		}
		if int(r.n) != x.n || r.err != nil {
			return false, fmt.Sprintf("%s: n=%d err=%v for %d bytes", x.api, r.n, r.err, x.n)
		}
		wantOff := 0
		if x.api != "writeat" {
			wantOff = x.off + x.n
		}
		if int(r.foff) != wantOff {
			return false, fmt.Sprintf("offset after %s is %d, want %d", x.api, r.foff, wantOff)
		}
	}
	return true, ""
}

func boundarySizes(p, conc int) []int {
	set := map[int]bool{0: true, 1: true}
	for _, k := range []int{1, 2, conc, conc + 1, 2*conc + 1} {
		for _, d := range []int{-1, 0, 1} {
			if v := k*p + d; v >= 0 {
				set[v] = true
			}
		}
	}
	var out []int
	for v := range set {
		out = append(out, v)
	}
	return out
}

func runC01(c *Ctx) {
	c.Rule("grid: maxPacket p in {1,2,3,7,8}, maxConcurrent in {1,2,3}, UseConcurrentReads/Writes/Fstat, file/buffer lengths and offsets in {0,1} + {k*p-1,k*p,k*p+1 | k in 1,2,conc,conc+1,2conc+1}, " +
		"all seven transfer APIs, five ReadFrom source kinds, backends {scripted peer, scripted peer permuting replies, Server, Server+allocator, RequestServer, RequestServer+allocator}; " +
		"plus (a fifth of the budget again) the request server over a backend whose ReadAt/WriteAt fails at seeded request offsets, a failing ReadAt returning its partial bytes with the error: obs against the model with those chunks failing, oracle of C13; " +
		"thorough adds the default 32 KiB packet with files beyond packet x 64; non-trivial = transfer of at least two chunks")
	apis := []string{"readat", "read", "writeto", "writeat", "write", "readfrom", "readfromc"}
	srcs := []string{"len", "size", "limited", "stat", "opaque"}
	backends := []string{"peer", "peerperm", "os", "osalloc", "req", "reqalloc"}
	budget := 900
	if c.Thorough() {
		budget = 40000
	}
	count := 0
	nRFC := 0
	nOpaque := 0
	one := func(x *xcase) {
		if (x.api == "readfrom" || x.api == "readfromc") && x.src == "opaque" {
			// every other length-less source hands over its last bytes together with io.EOF (decompressors do): they count
			x.dataEOF = nOpaque%2 == 1
			nOpaque++
			if x.dataEOF {
				c.Stat("readfrom_sources_with_data_and_eof_together")
			}
		}
		if x.api == "readfromc" {
			// the concurrency argument itself, or one of the values documented to mean "the client's maximum"
			x.rfc = nRFC % 4
			nRFC++
			c.Stat(fmt.Sprintf("readfromc_argument_kind_%d", x.rfc))
		}
		r, n := emitX(c, x)
		if r == nil {
			return
		}
		if x.n > x.p || (x.api == "writeto" && x.flen-x.off > x.p) {
			c.NT(n)
		}
		ok, why := oracleExact(x, r)
		if len(x.rfail)+len(x.wfail) > 0 {
			ok, why = oraclePartial(x, r)
		}
		c.Oracle(n, ok, why)
		count++
	}
	// systematic sweep, subsampled by the seeded PRNG to the budget
	type cfg struct{ p, conc int }
	var cfgs []cfg
	for _, p := range []int{1, 2, 3, 7, 8} {
		for _, conc := range []int{1, 2, 3} {
			cfgs = append(cfgs, cfg{p, conc})
		}
	}
	for count < budget {
		cf := cfgs[c.Rng.Intn(len(cfgs))]
		sizes := boundarySizes(cf.p, cf.conc)
		x := &xcase{api: apis[c.Rng.Intn(len(apis))], p: cf.p, conc: cf.conc, cr: c.Rng.Intn(3) != 0, cw: c.Rng.Intn(2) == 0, fst: c.Rng.Intn(2) == 0,
			flen: sizes[c.Rng.Intn(len(sizes))], n: sizes[c.Rng.Intn(len(sizes))], maxtx: 32768, src: srcs[c.Rng.Intn(len(srcs))],
			backend: backends[c.Rng.Intn(len(backends))], regular: true, ro: c.Rng.Intn(2) == 0}
		offs := append(sizes, x.flen, x.flen+1)
		x.off = offs[c.Rng.Intn(len(offs))]
		if c.Rng.Intn(3) == 0 {
			x.off = 0
		}
		if x.backend == "peer" || x.backend == "peerperm" {
			if c.Rng.Intn(4) == 0 {
				x.maxtx = 65536
			}
			if c.Rng.Intn(8) == 0 {
				x.regular = false
			}
		} else if c.Rng.Intn(4) == 0 {
			x.maxtx = 65536
		}
		one(x)
	}
	// a server whose STAT / FSTAT reports a size that is not the content's (0 for /proc files and generated content, a stale size,
	// an inflated one): the size only picks the path; WriteTo, like Read, still delivers what the READs deliver, to the end
	for i := 0; i < budget/12; i++ {
		p := []int{2, 3, 8}[i%3]
		flen := []int{1, p, p + 1, 3*p + 1, 5 * p}[i%5]
		x := &xcase{api: []string{"writeto", "writeto", "read", "readat"}[i%4], p: p, conc: 1 + i%3, cr: i%5 != 4, cw: false, fst: i%2 == 0, flen: flen, n: flen + 1, off: 0,
			maxtx: 32768, src: "opaque", backend: []string{"peer", "peerperm"}[i%2], regular: true}
		x.statSize = 1 + []int{0, 0, 1, flen / 2, 4 * flen}[(i/2)%5]
		c.Stat("lying_stat_size_cases")
		one(x)
	}
	// "a nil error means the whole request was transferred": the request server over a backend whose ReadAt / WriteAt fails
	// at chosen request offsets - a failing ReadAt returns the bytes it did get together with its error, as io.ReaderAt
	// allows. The model sees the plan as failing chunks (the server must answer such a chunk with the error's status).
	faulty := budget / 5
	for i := 0; i < faulty; i++ {
		p := 2 + c.Rng.Intn(7)
		conc := 1 + c.Rng.Intn(3)
		x := &xcase{api: apis[c.Rng.Intn(len(apis))], p: p, conc: conc, cr: c.Rng.Intn(3) != 0, cw: c.Rng.Intn(2) == 0, fst: c.Rng.Intn(2) == 0,
			maxtx: 32768, src: srcs[c.Rng.Intn(len(srcs))], backend: []string{"req", "reqalloc"}[c.Rng.Intn(2)], regular: true, ro: c.Rng.Intn(2) == 0}
		x.flen = c.Rng.Intn(6*p + 2)
		x.n = c.Rng.Intn(6*p + 2)
		x.off = []int{0, 0, 1, p, p + 1, 2 * p}[c.Rng.Intn(6)]
		plan := map[uint64]uint32{}
		for j, nf := 0, 1+c.Rng.Intn(2); j < nf; j++ {
			plan[uint64(x.off+c.Rng.Intn(6)*p)] = []uint32{4, 2, 3}[c.Rng.Intn(3)]
		}
		if isWriteAPI(x.api) {
			x.wfail = plan
		} else {
			for o := range plan {
				if int(o) >= x.flen {
					delete(plan, o)
				}
			}
			x.rfail = plan
		}
		c.Stat("faulty_backend_cases")
		one(x)
	}
	// several READs in flight on one read+write handle, servers with the buffer allocator: many chunks of 2 KiB, the same transfer
	// repeated (pages are lent and returned all the time; a page that returns too early is overwritten while it is being filled)
	for i := 0; i < 60; i++ {
		x := &xcase{api: []string{"readat", "writeto"}[i%2], p: 2048, conc: 2 + i%3, cr: true, cw: i%4 == 0, fst: i%3 == 0,
			flen: 12289 + i%5, n: 12289 + i%5, off: 0, maxtx: 32768, src: "len", backend: []string{"reqalloc", "osalloc", "reqalloc"}[i%3], regular: true, ro: i%6 == 5}
		c.Stat("allocator_many_chunk_reads")
		one(x)
	}
	// the largest packets: chunk sizes at and just above what fits a 256 KiB message together with the DATA header, against
	// servers whose transmit limit is raised to 256 KiB, allocator off and on (a page holds one message): every byte still arrives
	for i, p := range []int{262131, 262132, 262135, 262100} { // (262135 + type, id and length = 262144, the largest message there is)
		for j, be := range []string{"osalloc", "reqalloc", "os", "req"} {
			api := []string{"readat", "writeto", "read"}[(i+j)%3]
			x := &xcase{api: api, p: p, conc: 2, cr: (i+j)%2 == 0, cw: false, fst: j%2 == 0, flen: 2*p + 7 + i, n: 2*p + 7 + i, off: 0, maxtx: 262144,
				src: "len", backend: be, regular: true, ro: j%2 == 1}
			c.Stat("largest_packet_transfers")
			one(x)
		}
	}
	if c.Thorough() {
		// default packet size, files larger than packet x maxConcurrent
		for i := 0; i < 40; i++ {
			x := &xcase{api: apis[i%len(apis)], p: 32768, conc: 4, cr: true, cw: i%2 == 0, fst: i%3 == 0, flen: 32768*9 + []int{-1, 0, 1}[i%3], n: 32768*5 + []int{-1, 0, 1}[(i/3)%3],
				off: []int{0, 1, 32767, 32768}[i%4], maxtx: 32768, src: srcs[i%len(srcs)], backend: backends[i%len(backends)], regular: true}
			one(x)
		}
	}
}
