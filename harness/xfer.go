package main

// Transfers through File: one case runner shared by the families c01 (exact transfer), c13 (partial failure) and
// c12 (offset / closed-state). Backends: scripted filePeer (optionally permuting replies, with a failure plan),
// the real os-backed server and the real request server (allocator on/off).

import (
	"bytes"
	"errors"
	"fmt"
	"io"
	"math/rand"
	"net"
	"os"
	"path/filepath"
	"sort"
	"strings"
	"testing/iotest"
	"time"

	"github.com/pkg/sftp"
)

func patternBytes(start, n int) []byte {
	b := make([]byte, n)
	for i := range b {
		b[i] = byte((7*(start+i) + 3) % 251)
	}
	return b
}

type xcase struct {
	api          string // readat read writeto writeat write readfrom readfromc
	p, conc      int
	cr, cw, fst  bool
	flen, off, n int
	maxtx        int
	rfail, wfail map[uint64]uint32
	src          string // len size limited stat opaque
	backend      string // peer peerperm os osalloc req reqalloc
	regular      bool
	dataEOF      bool // ReadFrom sources without a length: the last bytes come together with io.EOF (as decompressors and iotest.DataErrReader do)
	contigEnd    int  // oracle only (c13): where contiguous data ends after a short answer on a concurrent read path (0: not used)
	ro           bool // read APIs: the file is opened read-only (Client.Open), which the request server serves through FileReader
	modeKind     int  // peer backends, regular = false: 0 character device, 1 permissions without type bits, 2 no permissions attribute
	statSize     int  // peer backends: what STAT / FSTAT report as the size - 0: the true size; k+1: k
	rfc          int  // readfromc: the concurrency ARGUMENT - 0: conc itself; 1: 0; 2: -1; 3: conc+7 (documented: below one or above the client's maximum means the maximum, which is conc)
}

func planStr(m map[uint64]uint32) string {
	if len(m) == 0 {
		return "-"
	}
	var ks []uint64
	for k := range m {
		ks = append(ks, k)
	}
	sort.Slice(ks, func(i, j int) bool { return ks[i] < ks[j] })
	var parts []string
	for _, k := range ks {
		parts = append(parts, fmt.Sprintf("%x:%x", k, m[k]))
	}
	return strings.Join(parts, ",")
}

func (x *xcase) kv() []string {
	return []string{kvs("api", x.api), kvi("p", x.p), kvi("conc", x.conc), kvb("cr", x.cr), kvb("cw", x.cw), kvb("fstat", x.fst),
		kvi("flen", x.flen), kvi("off", x.off), kvi("len", x.n), kvi("maxtx", x.maxtx), kvs("rfail", planStr(x.rfail)), kvs("wfail", planStr(x.wfail)),
		kvs("src", x.src), kvb("regular", x.regular), kvs("be", x.backend), kvb("ro", x.ro), kvi("rfc", x.rfc), kvi("statsz", x.statSize), kvi("modekind", x.modeKind), kvb("dataeof", x.dataEOF)}
}

type sizedReader struct{ r *bytes.Reader }

func (s sizedReader) Read(p []byte) (int, error) { return s.r.Read(p) }
func (s sizedReader) Size() int64                { return s.r.Size() }

type opaqueReader struct{ r io.Reader }

func (o opaqueReader) Read(p []byte) (int, error) { return o.r.Read(p) }

type countingReader struct {
	r io.Reader
	n int
}

func (c *countingReader) Read(p []byte) (int, error) { n, err := c.r.Read(p); c.n += n; return n, err }

type xresult struct {
	n      int64
	err    error
	data   []byte
	foff   int64
	file   []byte
	srcN   int // bytes consumed from the source (readfrom)
	hung   bool
	reord  int
	closes int
}

func xerrKind(err error) string {
	switch {
	case err == nil:
		return "nil"
	case err == io.EOF:
		return "eof"
	}
	return cliErrKind(err)
}

// runX executes one transfer case against its backend.
func runX(x *xcase, seed int64) (*xresult, error) {
	initial := patternBytes(0, x.flen)
	opts := []sftp.ClientOption{sftp.MaxPacketUnchecked(x.p), sftp.MaxConcurrentRequestsPerFile(x.conc), sftp.UseConcurrentReads(x.cr),
		sftp.UseConcurrentWrites(x.cw), sftp.UseFstat(x.fst)}
	var cl *sftp.Client
	var finalFile func() []byte
	var peer *filePeer
	name := "/f"
	cleanup := func() {}
	switch x.backend {
	case "peer", "peerperm":
		c1, c2 := net.Pipe()
		peer = &filePeer{store: append([]byte(nil), initial...), maxTx: x.maxtx, rfail: x.rfail, wfail: x.wfail, regular: x.regular, statSize: x.statSize, modeKind: x.modeKind,
			permute: x.backend == "peerperm", rng: rand.New(rand.NewSource(seed)), window: x.conc + 1}
		go peer.serve(c2)
		var err error
		cl, err = sftp.NewClientPipe(c1, c1, opts...)
		if err != nil {
			return nil, err
		}
		finalFile = func() []byte { peer.mu.Lock(); defer peer.mu.Unlock(); return append([]byte(nil), peer.store...) }
	case "os", "osalloc":
		dir, err := os.MkdirTemp("", "vh-x-")
		if err != nil {
			return nil, err
		}
		cleanup = func() { os.RemoveAll(dir) }
		name = filepath.Join(dir, "f")
		os.WriteFile(name, initial, 0o644)
		p, err := newPair(pairOpt{alloc: x.backend == "osalloc", maxTx: uint32(x.maxtx), clientOpts: opts})
		if err != nil {
			cleanup()
			return nil, err
		}
		cl = p.Client
		finalFile = func() []byte { b, _ := os.ReadFile(name); return b }
	case "req", "reqalloc":
		fs := newMemFS()
		mf := fs.get("/f", true)
		mf.data, mf.rfail, mf.wfail = append([]byte(nil), initial...), x.rfail, x.wfail
		mf.unexpectedEOF = (x.flen+x.off+x.n)%2 == 1
		p, err := newPair(pairOpt{reqServer: true, handlers: fs.handlers(), alloc: x.backend == "reqalloc", maxTx: uint32(x.maxtx), clientOpts: opts})
		if err != nil {
			return nil, err
		}
		cl = p.Client
		finalFile = func() []byte { return fs.get("/f", false).bytes() }
	}
	defer cleanup()
	res := &xresult{}
	done := make(chan struct{})
	go func() {
		defer close(done)
		flags := os.O_RDWR
		if x.ro && !isWriteAPI(x.api) {
			flags = os.O_RDONLY
		}
		f, err := cl.OpenFile(name, flags)
		if err != nil {
			res.err = fmt.Errorf("open: %w", err)
			return
		}
		data := patternBytes(1000, x.n)
		switch x.api {
		case "readat":
			b := make([]byte, x.n)
			n, err := f.ReadAt(b, int64(x.off))
			res.n, res.err, res.data = int64(n), err, b[:clampLen(n, len(b))]
		case "read":
			f.Seek(int64(x.off), io.SeekStart)
			b := make([]byte, x.n)
			n, err := f.Read(b)
			res.n, res.err, res.data = int64(n), err, b[:clampLen(n, len(b))]
		case "writeto":
			f.Seek(int64(x.off), io.SeekStart)
			var buf bytes.Buffer
			n, err := f.WriteTo(&buf)
			res.n, res.err, res.data = n, err, buf.Bytes()
		case "writeat":
			n, err := f.WriteAt(data, int64(x.off))
			res.n, res.err = int64(n), err
		case "write":
			f.Seek(int64(x.off), io.SeekStart)
			n, err := f.Write(data)
			res.n, res.err = int64(n), err
		case "readfrom", "readfromc":
			f.Seek(int64(x.off), io.SeekStart)
			var src io.Reader
			br := bytes.NewReader(data)
			switch x.src {
			case "len":
				src = br
			case "size":
				src = sizedReader{br}
			case "limited":
				src = &io.LimitedReader{R: opaqueReader{br}, N: int64(x.n)}
			case "stat":
				tf, _ := os.CreateTemp("", "vh-src-")
				tf.Write(data)
				tf.Seek(0, io.SeekStart)
				defer os.Remove(tf.Name())
				defer tf.Close()
				src = tf
			default:
				src = opaqueReader{br}
				if x.dataEOF {
					src = iotest.DataErrReader(src)
				}
			}
			var n int64
			var err error
			if x.api == "readfromc" {
				cr := &countingReader{r: src}
				n, err = f.ReadFromWithConcurrency(cr, []int{x.conc, 0, -1, x.conc + 7}[x.rfc])
				res.srcN = cr.n
			} else if x.src == "opaque" {
				cr := &countingReader{r: src}
				n, err = f.ReadFrom(cr)
				res.srcN = cr.n
			} else {
				n, err = f.ReadFrom(src)
				res.srcN = -1
			}
			res.n, res.err = n, err
		}
		res.foff, _ = f.Seek(0, io.SeekCurrent)
		f.Close()
	}()
	select {
	case <-done:
	case <-time.After(10 * time.Second):
		res.hung = true
	}
	cl.Close()
	res.file = finalFile()
	if peer != nil {
		peer.mu.Lock()
		res.reord, res.closes = peer.reorders, peer.closes
		peer.mu.Unlock()
	}
	return res, nil
}

func isWriteAPI(a string) bool {
	return a == "writeat" || a == "write" || a == "readfrom" || a == "readfromc"
}

// emit runs the case, prints obs (projected observables) and returns the result for the oracle.
func emitX(c *Ctx, x *xcase) (*xresult, int) {
	n := c.Case("xfer", x.kv()...)
	r, err := runX(x, c.Rng.Int63())
	if err != nil {
		c.Oracle(n, false, "setup: "+err.Error())
		return nil, n
	}
	if r.hung {
		c.Obs(n, "hang=1")
		c.Oracle(n, false, "transfer did not return within 10 s")
		return nil, n
	}
	obs := []string{kvs("err", xerrKind(r.err)), kvx("foff", uint64(r.foff))}
	failing := len(x.rfail)+len(x.wfail) > 0
	concW := (x.api == "writeat" || x.api == "write") && x.cw && x.n > x.p
	if !(x.api == "readfromc" && failing) && !(x.api == "readfrom" && failing && x.cw) {
		obs = append(obs, kvx("n", uint64(r.n)))
	}
	if isWriteAPI(x.api) {
		if failing && (concW || x.api == "readfromc" || (x.api == "readfrom" && x.cw)) {
			// chunks beyond the failing one may or may not have been sent: only the prefix the result vouches for is compared
			end := int(r.foff)
			if x.api == "writeat" {
				end = x.off + int(r.n)
			}
			if end <= x.off && end > x.flen {
				end = x.flen // nothing was stored at the transfer's offset: the gap before it may or may not have been zero-filled by later chunks
			}
			if end > len(r.file) {
				end = len(r.file)
			}
			obs = append(obs, kvh("filepre", r.file[:end]))
		} else {
			obs = append(obs, kvh("file", r.file))
		}
	} else {
		obs = append(obs, kvh("data", r.data))
	}
	c.Obs(n, obs...)
	if r.reord > 0 {
		c.Stat("replies_reordered")
	}
	c.Stat("api_" + x.api)
	c.Stat("be_" + x.backend)
	c.Stat("err_" + strings.SplitN(xerrKind(r.err), ":", 2)[0])
	return r, n
}

func errIsStatus(err error, code uint32) bool {
	switch code {
	case 1:
		return err == io.EOF
	case 2:
		return errors.Is(err, os.ErrNotExist)
	case 3:
		return errors.Is(err, os.ErrPermission)
	}
	var se *sftp.StatusError
	return errors.As(err, &se) && se.Code == code
}

// clampLen: a count returned by the code under test may be wrong; the harness must survive it (the count itself is
// reported and compared, so a count beyond the buffer is a mismatch and an oracle failure, not a harness crash)
func clampLen(n, max int) int {
	if n < 0 {
		return 0
	}
	if n > max {
		return max
	}
	return n
}
