// vh — correspondence and oracle harness for /verif. One sub-command per case family.
// Output protocol (one file, text): case/obs/oracle/nt/stat/diag lines, see DESIGN.md Appendix B.
package main

import (
	"bufio"
	"flag"
	"fmt"
	"math/rand"
	"os"
	"sort"
	"strings"
	"sync"
	"time"
)

type Ctx struct {
	Tier  string
	Seed  int64
	Rng   *rand.Rand
	mu    sync.Mutex
	w     *bufio.Writer
	n     int
	stats map[string]int
	hangs int
	Args  []string
	Start time.Time
}

func (c *Ctx) Thorough() bool { return c.Tier == "thorough" }

// Case emits a case line and returns its number. kv are "k=v" tokens (no spaces).
func (c *Ctx) Case(kind string, kv ...string) int {
	c.mu.Lock()
	defer c.mu.Unlock()
	c.n++
	fmt.Fprintf(c.w, "case %d %s %s\n", c.n, kind, strings.Join(kv, " "))
	return c.n
}

func (c *Ctx) Obs(n int, kv ...string) {
	c.mu.Lock()
	defer c.mu.Unlock()
	fmt.Fprintf(c.w, "obs %d %s\n", n, strings.Join(kv, " "))
}

// Oracle records the verdict of the property's own statement on the implementation's behaviour.
func (c *Ctx) Oracle(n int, ok bool, reason string) {
	c.mu.Lock()
	defer c.mu.Unlock()
	if ok {
		fmt.Fprintf(c.w, "oracle %d ok\n", n)
		return
	}
	fmt.Fprintf(c.w, "oracle %d FAIL %s\n", n, strings.ReplaceAll(reason, "\n", " | "))
	c.w.Flush() // a failing verdict must survive a later crash of the harness process (code under test runs in this process)
	// every hang costs a watchdog period: once a tree hangs this often the verdict is clear, stop instead of timing out
	if strings.Contains(reason, "hang") || strings.Contains(reason, "did not return") {
		c.hangs++
		if c.hangs >= 40 {
			fmt.Fprintf(c.w, "diag family aborted after %d hanging cases (the remaining cases were not run)\n", c.hangs)
			for k, v := range c.stats {
				fmt.Fprintf(c.w, "stat %s %d\n", k, v)
			}
			fmt.Fprintf(c.w, "done %d\n", c.n)
			c.w.Flush()
			os.Exit(0)
		}
	}
}

// NT marks a case as non-trivial by the family's stated rule.
func (c *Ctx) NT(n int) {
	c.mu.Lock()
	defer c.mu.Unlock()
	fmt.Fprintf(c.w, "nt %d\n", n)
}

func (c *Ctx) Stat(key string) { c.StatN(key, 1) }
func (c *Ctx) StatN(key string, k int) {
	c.mu.Lock()
	defer c.mu.Unlock()
	c.stats[key] += k
}
func (c *Ctx) Diag(format string, a ...any) {
	c.mu.Lock()
	defer c.mu.Unlock()
	fmt.Fprintf(c.w, "diag %s\n", strings.ReplaceAll(fmt.Sprintf(format, a...), "\n", " | "))
}
func (c *Ctx) Rule(s string) {
	c.mu.Lock()
	defer c.mu.Unlock()
	fmt.Fprintf(c.w, "rule %s\n", s)
}

type family struct {
	name string
	run  func(*Ctx)
}

var families = map[string]func(*Ctx){}

func register(name string, f func(*Ctx)) { families[name] = f }

func kvx(k string, v uint64) string { return fmt.Sprintf("%s=%x", k, v) }
func kvi(k string, v int) string    { return fmt.Sprintf("%s=%x", k, v) }
func kvs(k string, v string) string { return k + "=" + v }
func kvh(k string, b []byte) string { return k + "=" + hexs(b) }
func kvb(k string, b bool) string {
	if b {
		return k + "=1"
	}
	return k + "=0"
}
func hexs(b []byte) string {
	if len(b) == 0 {
		return "-"
	}
	return fmt.Sprintf("%x", b)
}

func main() {
	tier := flag.String("tier", "quick", "quick|thorough")
	seed := flag.Int64("seed", 1, "PRNG seed")
	out := flag.String("out", "", "output file")
	flag.Parse()
	if flag.NArg() < 1 {
		fmt.Fprintln(os.Stderr, "usage: vh [-tier T] [-seed S] -out FILE <family> [args]")
		os.Exit(2)
	}
	name := flag.Arg(0)
	if name == "child" { // child-process entry points (crash isolation)
		childMain(flag.Args()[1:])
		return
	}
	f, ok := families[name]
	if !ok {
		fmt.Fprintln(os.Stderr, "unknown family", name)
		os.Exit(2)
	}
	var w *os.File = os.Stdout
	if *out != "" {
		var err error
		w, err = os.Create(*out)
		if err != nil {
			fmt.Fprintln(os.Stderr, err)
			os.Exit(2)
		}
	}
	bw := bufio.NewWriterSize(w, 1<<20)
	ctx := &Ctx{Tier: *tier, Seed: *seed, Rng: rand.New(rand.NewSource(*seed)), w: bw, stats: map[string]int{}, Args: flag.Args()[1:], Start: time.Now()}
	// stall detector: a goroutine that sleeps 100 ms at a time notices when this process was not running (host paused for a
	// snapshot, machine overloaded). Every deadline of the harness is read off the same clock, so a run during which it fires
	// has void timing verdicts: bin/check repeats the family once when a failing run reports a stall.
	go func() {
		last := time.Now()
		for {
			time.Sleep(100 * time.Millisecond)
			now := time.Now()
			if d := now.Sub(last); d > 2*time.Second {
				ctx.Diag("stall: the harness process did not run for %v (after %v of the run): its timing verdicts are void", d.Round(100*time.Millisecond), last.Sub(ctx.Start).Round(time.Second))
				ctx.mu.Lock()
				ctx.w.Flush()
				ctx.mu.Unlock()
			}
			last = now
		}
	}()
	f(ctx)
	keys := make([]string, 0, len(ctx.stats))
	for k := range ctx.stats {
		keys = append(keys, k)
	}
	sort.Strings(keys)
	for _, k := range keys {
		fmt.Fprintf(bw, "stat %s %d\n", k, ctx.stats[k])
	}
	fmt.Fprintf(bw, "done %d\n", ctx.n)
	bw.Flush()
	w.Close()
}

var childEntries = map[string]func([]string){}

func childMain(args []string) {
	if len(args) < 1 {
		os.Exit(2)
	}
	f, ok := childEntries[args[0]]
	if !ok {
		fmt.Fprintln(os.Stderr, "unknown child entry", args[0])
		os.Exit(2)
	}
	f(args[1:])
}
