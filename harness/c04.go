package main

// C04 — connection loss fails every call and hangs none.
//
// A scripted peer plays a small deterministic file server. A fixed client program (single calls and multi-chunk
// transfers) is first run uncut (the reference: per call its value and the number of replies it needs, and the
// length L of the server->client stream). Then the same program is run once per cut position: the peer lets exactly
// the first k bytes of its reply stream through and then ends the transport (mode eof: the peer's end is closed;
// mode err: both ends are closed and the client's Read/Write return a non-EOF error), or the client's writer
// fails at its j-th Write call (mode wfail; both ends closed). The peer is a live server with a byte budget rather
// than a dumb byte replayer because WriteTo issues a timing-dependent number of read-ahead requests, which shifts
// later request ids; a byte budget gives the same cuts without depending on ids.
//
// The peer reads requests continuously; replies are written by a separate goroutine (net.Pipe is synchronous).

import (
	"bytes"
	"encoding/binary"
	"errors"
	"fmt"
	"io"
	"math/rand"
	"net"
	"runtime"
	"sort"
	"strings"
	"sync"
	"sync/atomic"
	"time"

	"github.com/pkg/sftp"
)

func init() { register("c04", runC04) }

var errC04Link = errors.New("c04: link failure")

// the error a failing Write of the client's transport returns: errC04Link, or io.EOF itself (what a closed x/crypto/ssh
// channel returns from Write) - set per case
var c04WErr error = errC04Link

// c04WriteOnly: a failing Write does not take the link down - every later Write fails as well, but the server->client
// direction stays open and silent (nothing tells the receiver that the connection is gone) - set per case
var c04WriteOnly bool
var errC04Skipped = errors.New("c04: call skipped, its file was never opened")

const c04Watchdog = 5 * time.Second

// ---------------------------------------------------------------- the transport seen by the client

// c04Link is the client's end of a net.Pipe. fail() ends BOTH directions. With failAt >= 0 the failAt-th Write call
// (and every later one) fails and takes the link down.
type c04Link struct {
	net.Conn          // c1
	peer     net.Conn // c2
	failAt   int
	part     bool // the failing Write lets the first half of its bytes through
	mu       sync.Mutex
	nwrite   int
	failed   atomic.Bool
	onFail   func(inFrame bool)
	failOnce sync.Once
}

func (l *c04Link) fail(inFrame bool) {
	l.failOnce.Do(func() {
		l.failed.Store(true)
		if l.onFail != nil {
			l.onFail(inFrame)
		}
		if c04WriteOnly {
			return
		}
		l.Conn.Close()
		l.peer.Close()
	})
}

func (l *c04Link) Read(b []byte) (int, error) {
	n, err := l.Conn.Read(b)
	if err != nil && l.failed.Load() {
		err = errC04Link
	}
	return n, err
}

func (l *c04Link) Write(b []byte) (int, error) {
	l.mu.Lock()
	i := l.nwrite
	l.nwrite++
	l.mu.Unlock()
	if l.failAt >= 0 && i >= l.failAt {
		n := 0
		if i == l.failAt && l.part && len(b) > 1 {
			n, _ = l.Conn.Write(b[:len(b)/2])
		}
		l.fail(l.part)
		return n, c04WErr
	}
	n, err := l.Conn.Write(b)
	if err != nil && l.failed.Load() {
		err = c04WErr
	}
	return n, err
}

func (l *c04Link) Close() error { return l.Conn.Close() }

func (l *c04Link) writes() int {
	l.mu.Lock()
	defer l.mu.Unlock()
	return l.nwrite
}

// ---------------------------------------------------------------- the scripted peer

type c04Req struct {
	call      int
	typ       byte
	required  bool // the call cannot produce its value without this reply
	complete  bool // the whole reply frame was taken by the client's reader
	readAhead bool // READ beyond the end of the file: WriteTo issues a timing-dependent number of these
	rlen      int  // length of the reply frame
}

type c04Out struct {
	idx int // index into reqs, -1 for VERSION
	b   []byte
	lag bool
}

type c04Peer struct {
	c2     net.Conn
	link   *c04Link
	mode   string // eof | err | wfail
	budget int    // bytes of the reply stream that get through; -1: no limit

	lag      int          // replies held back (see writer)
	lagAll   bool         // hold replies of every request (stress) instead of chunk requests of lagCalls only
	lagCalls map[int]bool // call indexes whose READ/WRITE replies are held

	curCall atomic.Int32

	mu          sync.Mutex
	reqs        []c04Req
	sent        int
	cutDone     bool
	cutInFrame  bool
	cutInflight int

	outq   chan c04Out
	cutReq chan struct{}
	cutCh  chan struct{} // closed once the transport has been ended
	done   chan struct{} // closed when the peer's goroutines are gone

	files    map[string][]byte
	dirCount map[string]int
}

func c04Pattern(n, mul, add int) []byte {
	b := make([]byte, n)
	for i := range b {
		b[i] = byte(i*mul + add)
	}
	return b
}

func newC04Peer(mode string, budget, failAt int, part bool) (*c04Peer, *c04Link) {
	c1, c2 := net.Pipe()
	p := &c04Peer{c2: c2, mode: mode, budget: budget,
		outq: make(chan c04Out, 8192), cutReq: make(chan struct{}, 1), cutCh: make(chan struct{}), done: make(chan struct{}),
		files:    map[string][]byte{"/f": c04Pattern(40, 7, 3), "/big": c04Pattern(100, 13, 5), "/huge": c04Pattern(4096, 31, 1), "/g": nil},
		dirCount: map[string]int{}}
	l := &c04Link{Conn: c1, peer: c2, failAt: failAt, part: part}
	l.onFail = func(inFrame bool) { p.noteCut(inFrame) }
	p.link = l
	p.curCall.Store(-1)
	return p, l
}

func (p *c04Peer) start() { go p.run() }

// noteCut latches the state at the moment the transport ends; true for the first caller.
func (p *c04Peer) noteCut(inFrame bool) bool {
	p.mu.Lock()
	defer p.mu.Unlock()
	if p.cutDone {
		return false
	}
	p.cutDone = true
	p.cutInFrame = inFrame
	for _, r := range p.reqs {
		if !r.complete {
			p.cutInflight++
		}
	}
	close(p.cutCh)
	return true
}

func (p *c04Peer) doCut(inFrame bool) {
	if p.mode == "eof" {
		if p.noteCut(inFrame) {
			p.c2.Close()
		}
		return
	}
	p.link.fail(inFrame) // notes the cut through onFail
}

// cutNow ends the transport if the budget has not done so already (the stream was shorter than k in this run).
func (p *c04Peer) cutNow() {
	select {
	case p.cutReq <- struct{}{}:
	default:
	}
	select {
	case <-p.cutCh:
	case <-p.done: // the peer's goroutines are gone already: end the transport from here
		p.doCut(false)
	case <-time.After(c04Watchdog):
		p.doCut(false)
	}
}

// writer sends the replies in request order. With lag > 0 the reply to a chunk request of a multi-chunk transfer
// (or, in the stress class, to any request) is held back until more than lag replies are pending or nothing has
// arrived for 2 ms, so that several requests are unanswered at the moment of the cut. The timer only changes how
// many requests are in flight, never what the oracle expects.
func (p *c04Peer) writer() {
	var pending []c04Out
	open, flush := true, false
	for {
		for open { // take over whatever has been queued
			select {
			case o, ok := <-p.outq:
				if !ok {
					open = false
				} else {
					pending = append(pending, o)
				}
				continue
			default:
			}
			break
		}
		if len(pending) == 0 {
			if !open {
				return
			}
			flush = false
			select {
			case o, ok := <-p.outq:
				if !ok {
					open = false
				} else {
					pending = append(pending, o)
				}
			case <-p.cutReq:
				p.doCut(false)
			}
			continue
		}
		p.mu.Lock()
		cut := p.cutDone
		p.mu.Unlock()
		if open && !cut && !flush && pending[0].lag && len(pending) <= p.lag {
			timer := time.NewTimer(2 * time.Millisecond)
			select {
			case o, ok := <-p.outq:
				if !ok {
					open = false
				} else {
					pending = append(pending, o)
				}
			case <-p.cutReq:
				p.doCut(false)
			case <-timer.C:
				flush = true // idle: release everything that is held
			}
			timer.Stop()
			continue
		}
		o := pending[0]
		pending = pending[1:]
		if !cut || c04WriteOnly { // write-side-only failure: the peer is alive and goes on answering what it received
			p.emit(o)
		}
	}
}

func (p *c04Peer) emit(o c04Out) {
	b := o.b
	n := len(b)
	if p.budget >= 0 && p.sent+n > p.budget {
		n = p.budget - p.sent
	}
	werr := false
	if n > 0 {
		m, err := p.c2.Write(b[:n])
		p.mu.Lock()
		p.sent += m
		p.mu.Unlock()
		if err != nil || m != n {
			werr = true
			n = m
		}
	}
	if n == len(b) && o.idx >= 0 {
		p.mu.Lock()
		p.reqs[o.idx].complete = true
		p.mu.Unlock()
	}
	if werr {
		p.doCut(n > 0 && n < len(b))
	} else if p.budget >= 0 && p.sent >= p.budget {
		p.doCut(n < len(b))
	}
}

type c04Rd struct {
	b  []byte
	ok bool
}

func (r *c04Rd) u32() uint32 {
	if len(r.b) < 4 {
		r.ok = false
		return 0
	}
	v := binary.BigEndian.Uint32(r.b)
	r.b = r.b[4:]
	return v
}
func (r *c04Rd) u64() uint64 {
	if len(r.b) < 8 {
		r.ok = false
		return 0
	}
	v := binary.BigEndian.Uint64(r.b)
	r.b = r.b[8:]
	return v
}
func (r *c04Rd) str() string {
	l := r.u32()
	if !r.ok || uint64(l) > uint64(len(r.b)) {
		r.ok = false
		return ""
	}
	s := string(r.b[:l])
	r.b = r.b[l:]
	return s
}

func c04Attrs(size int, dir bool) []byte {
	perm := uint32(0o100644)
	if dir {
		perm = 0o40755
	}
	return (&rb{}).u32(0xd).u64(uint64(size)).u32(perm).u32(11).u32(22).b
}

// serve produces the reply body (type byte first) for one request and says whether the issuing call needs it.
func (p *c04Peer) serve(fr *rawResp) ([]byte, bool) {
	id := fr.ID
	r := &c04Rd{b: fr.Body, ok: true}
	okStatus := pkt(fxpStatus, id).u32(0).str("").str("").b
	switch fr.Typ {
	case fxpStat, fxpLstat:
		path := r.str()
		if path == "/d" {
			return pkt(fxpAttrs, id).raw(c04Attrs(0, true)).b, true
		}
		if c, ok := p.files[path]; ok {
			return pkt(fxpAttrs, id).raw(c04Attrs(len(c), false)).b, true
		}
		return pkt(fxpStatus, id).u32(2).str("no such file").str("").b, true
	case fxpFstat:
		h := r.str()
		return pkt(fxpAttrs, id).raw(c04Attrs(len(p.files[strings.TrimPrefix(h, "h:")]), false)).b, true
	case fxpOpen:
		return pkt(fxpHandle, id).str("h:" + r.str()).b, true
	case fxpOpendir:
		return pkt(fxpHandle, id).str("d:" + r.str()).b, true
	case fxpClose:
		h := r.str()
		if strings.HasPrefix(h, "d:") {
			delete(p.dirCount, h)
			return okStatus, false // ReadDir ignores the result of closing its handle
		}
		return okStatus, true
	case fxpRead:
		h := r.str()
		off := r.u64()
		l := r.u32()
		c := p.files[strings.TrimPrefix(h, "h:")]
		required := off < uint64(len(c))+uint64(l) // beyond that: WriteTo's read-ahead past the end of the file
		if off >= uint64(len(c)) {
			return pkt(fxpStatus, id).u32(1).str("EOF").str("").b, required
		}
		end := off + uint64(l)
		if end > uint64(len(c)) {
			end = uint64(len(c))
		}
		return pkt(fxpData, id).str(string(c[off:end])).b, required
	case fxpReaddir:
		h := r.str()
		p.dirCount[h]++
		if p.dirCount[h] > 1 {
			return pkt(fxpStatus, id).u32(1).str("EOF").str("").b, true
		}
		return pkt(fxpName, id).u32(3).str("a").str("-rw-r--r-- a").raw(c04Attrs(1, false)).
			str("bb").str("-rw-r--r-- bb").raw(c04Attrs(22, false)).str("sub").str("drwxr-xr-x sub").raw(c04Attrs(0, true)).b, true
	case fxpReadlink, fxpRealpath:
		return pkt(fxpName, id).u32(1).str("/target/of" + r.str()).str("").u32(0).b, true
	default: // WRITE, SETSTAT, MKDIR, ...
		return okStatus, true
	}
}

func (p *c04Peer) run() {
	defer close(p.done)
	wdone := make(chan struct{})
	go func() { defer close(wdone); p.writer() }()
	defer func() { close(p.outq); <-wdone }()
	fr, err := readFrame(p.c2)
	if err != nil || fr.Typ != fxpInit {
		return
	}
	p.outq <- c04Out{idx: -1, b: frame((&rb{}).u8(fxpVersion).u32(3).b)}
	for {
		fr, err := readFrame(p.c2)
		if err != nil {
			return
		}
		reply, required := p.serve(fr)
		p.mu.Lock()
		idx := len(p.reqs)
		call := int(p.curCall.Load())
		p.reqs = append(p.reqs, c04Req{call: call, typ: fr.Typ, required: required, readAhead: fr.Typ == fxpRead && !required, rlen: len(reply) + 4})
		p.mu.Unlock()
		lag := p.lag > 0 && (p.lagAll || (p.lagCalls[call] && (fr.Typ == fxpRead || fr.Typ == fxpWrite)))
		p.outq <- c04Out{idx: idx, b: frame(reply), lag: lag}
	}
}

// ---------------------------------------------------------------- the client program

type c04State struct {
	cl   *sftp.Client
	f, g *sftp.File
}

type c04Call struct {
	name string
	run  func(s *c04State) (string, error)
}

func c04StatVal(fi interface{ Size() int64 }, err error) (string, error) {
	if err != nil {
		return "", err
	}
	return fmt.Sprintf("size=%d", fi.Size()), nil
}

func c04ReadAt(pick func(*c04State) *sftp.File, n int, off int64) func(*c04State) (string, error) {
	return func(s *c04State) (string, error) {
		f := pick(s)
		if f == nil {
			return "", errC04Skipped
		}
		b := make([]byte, n)
		m, err := f.ReadAt(b, off)
		return fmt.Sprintf("n=%d;data=%x", m, b[:m]), err
	}
}

func c04WriteAt(pick func(*c04State) *sftp.File, n int, off int64) func(*c04State) (string, error) {
	return func(s *c04State) (string, error) {
		f := pick(s)
		if f == nil {
			return "", errC04Skipped
		}
		m, err := f.WriteAt(c04Pattern(n, 3, 9), off)
		return fmt.Sprintf("n=%d", m), err
	}
}

func c04F(s *c04State) *sftp.File { return s.f }
func c04G(s *c04State) *sftp.File { return s.g }

func c04Open(path string, create bool, set func(*c04State, *sftp.File)) func(*c04State) (string, error) {
	return func(s *c04State) (string, error) {
		var f *sftp.File
		var err error
		if create {
			f, err = s.cl.Create(path)
		} else {
			f, err = s.cl.Open(path)
		}
		if err != nil {
			return "", err
		}
		set(s, f)
		return "ok", nil
	}
}

func c04CloseFile(pick func(*c04State) *sftp.File) func(*c04State) (string, error) {
	return func(s *c04State) (string, error) {
		f := pick(s)
		if f == nil {
			return "", errC04Skipped
		}
		return "ok", f.Close()
	}
}

func c04WriteTo(s *c04State) (string, error) {
	if s.f == nil {
		return "", errC04Skipped
	}
	var buf bytes.Buffer
	n, err := s.f.WriteTo(&buf)
	return fmt.Sprintf("n=%d;data=%x", n, buf.Bytes()), err
}

func c04ReadFrom(n int) func(*c04State) (string, error) {
	return func(s *c04State) (string, error) {
		if s.g == nil {
			return "", errC04Skipped
		}
		m, err := s.g.ReadFrom(bytes.NewReader(c04Pattern(n, 5, 1)))
		return fmt.Sprintf("n=%d", m), err
	}
}

func c04ReadDir(s *c04State) (string, error) {
	l, err := s.cl.ReadDir("/d")
	names := []string{}
	for _, fi := range l {
		names = append(names, fmt.Sprintf("%s:%d", fi.Name(), fi.Size()))
	}
	return "names=" + strings.Join(names, ","), err
}

// c04Program returns the client options and the fixed call sequence of session variant v.
func c04Program(v int) ([]sftp.ClientOption, []c04Call) {
	setF := func(s *c04State, f *sftp.File) { s.f = f }
	setG := func(s *c04State, f *sftp.File) { s.g = f }
	stat := func(p string) func(s *c04State) (string, error) {
		return func(s *c04State) (string, error) { return c04StatVal(s.cl.Stat(p)) }
	}
	lstat := func(s *c04State) (string, error) { return c04StatVal(s.cl.Lstat("/f")) }
	fstat := func(s *c04State) (string, error) {
		if s.f == nil {
			return "", errC04Skipped
		}
		return c04StatVal(s.f.Stat())
	}
	readlink := func(s *c04State) (string, error) {
		t, err := s.cl.ReadLink("/l")
		return "target=" + t, err
	}
	gwrite := func(s *c04State) (string, error) {
		if s.g == nil {
			return "", errC04Skipped
		}
		n, err := s.g.Write(c04Pattern(8, 11, 2))
		return fmt.Sprintf("n=%d", n), err
	}
	if v == 0 || v == 2 {
		opts := []sftp.ClientOption{sftp.MaxPacketUnchecked(8)}
		if v == 2 { // the same program on the sequential read paths (readAtSequential, writeToSequential)
			opts = append(opts, sftp.UseConcurrentReads(false))
		}
		// maxPacket 8: a 40-byte ReadAt is 5 concurrent chunk requests, WriteTo is stat + 6 reads (+ read-ahead),
		// a 24-byte WriteAt is 3 sequential writes, a 20-byte sequential ReadFrom is 3 writes (last one short).
		return opts, []c04Call{
			{"stat", stat("/f")},
			{"open", c04Open("/f", false, setF)},
			{"read8", c04ReadAt(c04F, 8, 8)},
			{"write8", c04WriteAt(c04F, 8, 0)},
			{"readmc", c04ReadAt(c04F, 40, 0)},
			{"write24", c04WriteAt(c04F, 24, 8)},
			{"lstat", lstat},
			{"readdir", c04ReadDir},
			{"fstat", fstat},
			{"readlink", readlink},
			{"create", c04Open("/g", true, setG)},
			{"gwrite", gwrite},
			{"readfrom", c04ReadFrom(20)},
			{"gclose", c04CloseFile(c04G)},
			{"writeto", c04WriteTo}, // last transfer: the number of its read-ahead requests (hence the stream after it) depends on timing
			{"close", c04CloseFile(c04F)},
		}
	}
	// The longer session: 100-byte file, 3 requests in flight per transfer, concurrent writes, fstat in WriteTo.
	return []sftp.ClientOption{sftp.MaxPacketUnchecked(8), sftp.MaxConcurrentRequestsPerFile(3), sftp.UseConcurrentWrites(true), sftp.UseFstat(true)}, []c04Call{
		{"stat", stat("/big")},
		{"open", c04Open("/big", false, setF)},
		{"readmc", c04ReadAt(c04F, 100, 0)},
		{"writemc", c04WriteAt(c04F, 50, 3)},
		{"read8", c04ReadAt(c04F, 8, 90)},
		{"create", c04Open("/g", true, setG)},
		{"readfromc", c04ReadFrom(30)},
		{"readfrom8", c04ReadFrom(8)},
		{"gclose", c04CloseFile(c04G)},
		{"readdir", c04ReadDir},
		{"readmc2", c04ReadAt(c04F, 33, 17)},
		{"fstat", fstat},
		{"writeto", c04WriteTo},
		{"close", c04CloseFile(c04F)},
	}
}

// c04Within runs fn in its own goroutine and reports whether it returned within the watchdog.
func c04Within(fn func()) bool {
	ch := make(chan struct{})
	go func() { fn(); close(ch) }()
	select {
	case <-ch:
		return true
	case <-time.After(c04Watchdog):
		return false
	}
}

type c04CallRes struct {
	val      string
	err      error
	returned bool
	started  bool
}

type c04Run struct {
	newErr      error
	newHang     bool
	calls       []c04CallRes
	reqs        []c04Req
	sent        int // bytes of the reply stream taken by the client
	writes      int
	cutInFrame  bool
	cutInflight int
	cutEarly    bool // the transport ended while the program was running (not by the end-of-program cut)
	afterErr    error
	afterHang   bool
	waitErr     error
	waitHang    bool
	closeHang   bool
	peerStuck   bool
	goroutines  int
	baseline    int
	pkgLeft     []string
	otherLeft   []string
}

// c04PkgGoroutines lists, for every goroutine with a frame in pkg/sftp, the innermost such function; the second list
// is the innermost function of every other goroutine except the caller.
func c04Goroutines() (pkg, other []string) {
	buf := make([]byte, 1<<20)
	buf = buf[:runtime.Stack(buf, true)]
	for i, blk := range strings.Split(string(buf), "\n\n") {
		lines := strings.Split(blk, "\n")
		found := ""
		first := ""
		for _, ln := range lines[1:] {
			if strings.HasPrefix(ln, "\t") || ln == "" {
				continue
			}
			fn := ln
			if j := strings.LastIndex(fn, "("); j > 0 {
				fn = fn[:j]
			}
			fn = strings.TrimPrefix(fn, "created by ")
			if j := strings.Index(fn, " in goroutine"); j > 0 {
				fn = fn[:j]
			}
			if first == "" {
				first = fn
			}
			if found == "" && strings.HasPrefix(fn, "github.com/pkg/sftp.") {
				found = strings.TrimPrefix(fn, "github.com/pkg/")
			}
		}
		if found != "" {
			pkg = append(pkg, found)
		} else if i > 0 {
			other = append(other, first)
		}
	}
	sort.Strings(pkg)
	sort.Strings(other)
	return
}

func c04Settle(baseline int) (n int, pkg, other []string) {
	deadline := time.Now().Add(2 * time.Second)
	d := 50 * time.Microsecond
	for {
		n = runtime.NumGoroutine()
		if n <= baseline {
			return n, nil, nil
		}
		if time.Now().After(deadline) {
			break
		}
		time.Sleep(d)
		if d < 20*time.Millisecond {
			d *= 2
		}
	}
	pkg, other = c04Goroutines()
	return runtime.NumGoroutine(), pkg, other
}

// c04Session runs the program of variant v against a fresh peer.
// c04Concurrent names the calls that keep several chunk requests in flight; their replies are the ones a lag holds back.
var c04Concurrent = map[string]bool{"readmc": true, "readmc2": true, "writeto": true, "writemc": true, "readfromc": true}

func c04Session(v int, mode string, budget, failAt int, part bool, lag int) *c04Run {
	res := &c04Run{baseline: runtime.NumGoroutine()}
	opts, prog := c04Program(v)
	res.calls = make([]c04CallRes, len(prog))
	p, link := newC04Peer(mode, budget, failAt, part)
	p.lag, p.lagCalls = lag, map[int]bool{}
	for i, call := range prog {
		p.lagCalls[i] = c04Concurrent[call.name]
	}
	p.start()
	st := &c04State{}
	if !c04Within(func() { st.cl, res.newErr = sftp.NewClientPipe(link, link, opts...) }) {
		res.newHang = true
	}
	if !res.newHang && st.cl != nil {
		for i, call := range prog {
			p.curCall.Store(int32(i))
			cr := &res.calls[i]
			cr.started = true
			var val string
			var err error
			if !c04Within(func() { val, err = call.run(st) }) {
				break // a hung call still owns val/err: do not touch them
			}
			cr.val, cr.err, cr.returned = val, err, true
		}
		p.curCall.Store(int32(len(prog)))
		p.mu.Lock()
		res.cutEarly = p.cutDone
		p.mu.Unlock()
		res.writes = link.writes()
		if c04WriteOnly {
			// the calls have been judged with the reply direction open and silent; now the link really goes down
			link.Conn.Close()
			link.peer.Close()
		}
		p.cutNow()
		var aerr error
		if c04Within(func() { _, aerr = st.cl.Stat("/f") }) {
			res.afterErr = aerr
		} else {
			res.afterHang = true
		}
		var werr error
		if c04Within(func() { werr = st.cl.Wait() }) {
			res.waitErr = werr
		} else {
			res.waitHang = true
		}
		if !c04Within(func() { st.cl.Close() }) {
			res.closeHang = true
		}
	} else {
		p.mu.Lock()
		res.cutEarly = p.cutDone
		p.mu.Unlock()
		res.writes = link.writes()
	}
	link.fail(false)
	select {
	case <-p.done:
	case <-time.After(c04Watchdog):
		res.peerStuck = true
	}
	p.mu.Lock()
	res.reqs = append([]c04Req(nil), p.reqs...)
	res.cutInFrame, res.cutInflight = p.cutInFrame, p.cutInflight
	res.sent = p.sent // read only now: the peer's writer has finished, so every byte the client took is counted
	p.mu.Unlock()
	res.goroutines, res.pkgLeft, res.otherLeft = c04Settle(res.baseline)
	return res
}

// perCall counts, for every call index, the needed replies that arrived completely and those that did not.
func (r *c04Run) perCall(n int) (complete, missing []int) {
	complete, missing = make([]int, n+1), make([]int, n+1)
	for _, q := range r.reqs {
		if !q.required || q.call < 0 || q.call > n {
			continue
		}
		if q.complete {
			complete[q.call]++
		} else {
			missing[q.call]++
		}
	}
	return
}

func c04LeakReason(r *c04Run) string {
	if len(r.pkgLeft) > 0 {
		return fmt.Sprintf("goroutine-leak: %d goroutines of the package survive Close: %s", len(r.pkgLeft), strings.Join(c04Uniq(r.pkgLeft), ","))
	}
	if r.goroutines > r.baseline {
		return fmt.Sprintf("goroutine-count-above-baseline: no pkg/sftp frame among the extra goroutines: %s", strings.Join(c04Uniq(r.otherLeft), ","))
	}
	return ""
}

func c04Uniq(s []string) []string {
	out := []string{}
	for i, x := range s {
		if i == 0 || s[i-1] != x {
			out = append(out, x)
		}
	}
	return out
}

func c04ErrStat(c *Ctx, prefix string, err error) {
	switch {
	case err == nil:
		c.Stat(prefix + "_nil")
	case errors.Is(err, errC04Skipped):
		c.Stat(prefix + "_skipped-no-file")
	case errors.Is(err, errC04Link):
		c.Stat(prefix + "_linkerr")
	case errors.Is(err, io.ErrClosedPipe):
		c.Stat(prefix + "_closedpipe")
	default:
		c.Stat(prefix + "_" + cliErrKind(err))
	}
}

// ---------------------------------------------------------------- the stress class

type c04StressRes struct {
	reasons []string
	ops     int
	okOps   int
}

func c04Stress(c *Ctx, G int, mode string, budget, failAt int, part bool, lag int, seed int64) (*c04Run, *c04StressRes) {
	res := &c04Run{baseline: runtime.NumGoroutine()}
	sr := &c04StressRes{}
	p, link := newC04Peer(mode, budget, failAt, part)
	p.lag, p.lagAll = lag, true
	p.start()
	var cl *sftp.Client
	if !c04Within(func() {
		cl, res.newErr = sftp.NewClientPipe(link, link, sftp.MaxPacketUnchecked(64), sftp.MaxConcurrentRequestsPerFile(4))
	}) {
		res.newHang = true
	}
	huge := p.files["/huge"]
	if !res.newHang && cl != nil {
		var f *sftp.File
		var ferr error
		if !c04Within(func() { f, ferr = cl.Open("/huge") }) {
			sr.reasons = append(sr.reasons, "hang: Open did not return within 5s")
		}
		var mu sync.Mutex
		add := func(s string) {
			mu.Lock()
			sr.reasons = append(sr.reasons, s)
			mu.Unlock()
		}
		var wg sync.WaitGroup
		var running atomic.Int32
		for g := 0; g < G; g++ {
			wg.Add(1)
			running.Add(1)
			rng := rand.New(rand.NewSource(seed*1000 + int64(g)))
			go func(g int) {
				defer wg.Done()
				defer running.Add(-1)
				failedAt := -1
				nops, nok := 0, 0
				for i := 0; i < 2000000 && (failedAt < 0 || i < failedAt+4); i++ {
					var err error
					kind := rng.Intn(3)
					if f == nil || ferr != nil {
						kind = 0
					}
					bad := ""
					switch kind {
					case 0:
						path := []string{"/f", "/big", "/huge"}[rng.Intn(3)]
						fi, e := cl.Stat(path)
						err = e
						if e == nil && fi.Size() != int64(len(p.files[path])) {
							bad = "Stat"
						}
					case 1:
						off := rng.Intn(4000)
						b := make([]byte, 1+rng.Intn(64))
						n, e := f.ReadAt(b, int64(off))
						err = e
						if e == nil && (n != len(b) || !bytes.Equal(b, huge[off:off+n])) {
							bad = "ReadAt"
						}
					case 2:
						off := rng.Intn(3000)
						b := make([]byte, 65+rng.Intn(700))
						n, e := f.ReadAt(b, int64(off))
						err = e
						if e == nil && (n != len(b) || !bytes.Equal(b, huge[off:off+n])) {
							bad = "multi-chunk ReadAt"
						}
					}
					nops++
					if bad != "" {
						add("wrong-value: " + bad + " returned nil error and a value the server never produced")
					}
					if err == nil {
						nok++
						if failedAt >= 0 {
							add("after-failure-no-error: a call started after another call of the same goroutine had failed returned nil")
						}
					} else if failedAt < 0 {
						failedAt = i
					}
				}
				mu.Lock()
				sr.ops += nops
				sr.okOps += nok
				mu.Unlock()
			}(g)
		}
		allDone := make(chan struct{})
		go func() { wg.Wait(); close(allDone) }()
		select {
		case <-p.cutCh:
		case <-time.After(60 * time.Second):
			add("harness: the link was never cut")
			p.cutNow()
		}
		select {
		case <-allDone:
		case <-time.After(c04Watchdog):
			add(fmt.Sprintf("hang: %d of %d callers did not return within 5s of the failure", running.Load(), G))
		}
		res.cutEarly = true
		var aerr error
		if c04Within(func() { _, aerr = cl.Stat("/f") }) {
			res.afterErr = aerr
		} else {
			res.afterHang = true
		}
		var werr error
		if c04Within(func() { werr = cl.Wait() }) {
			res.waitErr = werr
		} else {
			res.waitHang = true
		}
		if !c04Within(func() { cl.Close() }) {
			res.closeHang = true
		}
	}
	link.fail(false)
	select {
	case <-p.done:
	case <-time.After(c04Watchdog):
		res.peerStuck = true
	}
	p.mu.Lock()
	res.cutInFrame, res.cutInflight = p.cutInFrame, p.cutInflight
	res.sent = p.sent
	p.mu.Unlock()
	res.goroutines, res.pkgLeft, res.otherLeft = c04Settle(res.baseline)
	sort.Strings(sr.reasons)
	sr.reasons = c04Uniq(sr.reasons)
	return res, sr
}

// ---------------------------------------------------------------- the family

func runC04(c *Ctx) {
	c.Rule("a fixed client program (stat, open, single and multi-chunk ReadAt/WriteAt, WriteTo, ReadDir, ReadLink, Create/Write/ReadFrom, Close; 30-60 requests) " +
		"runs against a scripted file server over net.Pipe; kind cut: for EVERY byte offset k of the server->client stream (incl. the VERSION reply) the first k bytes get through, " +
		"then mode=eof (peer end closed) or mode=err (both ends closed, client sees a non-EOF error); mode=wfail: the client's k-th Write call fails (part=1: after half its bytes; weof=1: the error is io.EOF itself, as from a closed ssh channel) and the link goes down; " +
		"sess=0 short session, sess=1 longer session with 3-deep concurrent ReadAt/WriteAt/WriteTo/ReadFrom, sess=2 the short session on the sequential read paths; " +
		"lag=n: the peer holds the replies to chunk requests until more than n are pending (several requests in flight at the cut); thorough adds more lags; " +
		"kind stress: g goroutines loop Stat/ReadAt/multi-chunk ReadAt while the link is cut at a seeded byte/write index; " +
		"non-trivial = the cut falls inside a frame or while >= 2 requests are unanswered")
	c04ShortReads(c)

	// warm up lazily started runtime machinery before any baseline is taken
	c04Session(0, "eof", -1, -1, false, 0)

	type sessLag struct{ v, lag int }
	sessions := []sessLag{{0, 0}, {0, 2}, {1, 0}, {1, 2}, {2, 0}}
	if c.Thorough() {
		sessions = []sessLag{{0, 0}, {0, 1}, {0, 2}, {0, 4}, {1, 0}, {1, 1}, {1, 2}, {1, 3}, {2, 0}, {2, 1}}
	}
	for _, sl := range sessions {
		v, lag := sl.v, sl.lag
		_, prog := c04Program(v)
		// the reference: three uncut runs must agree on every call's value and on the number of replies each call needs
		var ref *c04Run
		var refComplete []int
		L, J := 0, 0
		refOK := true
		for i := 0; i < 3; i++ {
			r := c04Session(v, "eof", -1, -1, false, lag)
			comp, miss := r.perCall(len(prog))
			for ci := range prog {
				if !r.calls[ci].returned || r.calls[ci].err != nil || miss[ci] != 0 {
					c.Diag("c04 sess=%d reference run %d: call %s failed: returned=%v err=%v missing=%d", v, i, prog[ci].name, r.calls[ci].returned, r.calls[ci].err, miss[ci])
					refOK = false
				}
			}
			if ref == nil {
				ref, refComplete = r, comp
			} else {
				for ci := range prog {
					if r.calls[ci].val != ref.calls[ci].val || comp[ci] != refComplete[ci] {
						c.Diag("c04 sess=%d reference runs disagree on call %s: %q/%d vs %q/%d", v, prog[ci].name, ref.calls[ci].val, refComplete[ci], r.calls[ci].val, comp[ci])
						refOK = false
					}
				}
			}
			// the stream without WriteTo's read-ahead traffic is the same in every run: cut positions are taken from it
			l, j := 9, 1
			for _, q := range r.reqs {
				if !q.readAhead {
					l += q.rlen
					j++
					if q.typ == fxpWrite {
						j++ // header and payload are two Write calls
					}
				}
			}
			if i > 0 && (l != L || j != J) {
				c.Diag("c04 sess=%d reference runs disagree on the stream: %d/%d vs %d/%d", v, L, J, l, j)
				refOK = false
			}
			L, J = l, j
			if lr := c04LeakReason(r); lr != "" {
				c.Diag("c04 sess=%d reference run %d: %s", v, i, lr)
			}
		}
		nreq := 0
		for _, n := range refComplete {
			nreq += n
		}
		c.Diag("c04 sess=%d lag=%d reference: %d calls, %d needed replies, reply stream %d bytes, %d client Write calls (both without WriteTo read-ahead)", v, lag, len(prog), nreq, L, J)
		if !refOK {
			n := c.Case("cut", kvi("k", 0), kvs("mode", "none"), kvi("sess", v), kvi("lag", lag))
			c.Oracle(n, false, "harness: the uncut reference session did not complete (see diag)")
			continue
		}

		evaluate := func(n int, r *c04Run) {
			var reasons []string
			add := func(s string) { reasons = append(reasons, s) }
			if r.newHang {
				add("hang: NewClientPipe did not return within 5s")
			}
			versionWhole := r.sent >= 9
			if r.newErr == nil && !versionWhole && !r.newHang {
				add("newclient-no-error: NewClientPipe succeeded although the VERSION reply never arrived completely")
			}
			if r.newErr != nil {
				c04ErrStat(c, "newclient", r.newErr)
				if versionWhole {
					add("newclient-failed: NewClientPipe failed although the VERSION reply was delivered completely")
				}
			}
			if r.newErr == nil && !r.newHang {
				comp, miss := r.perCall(len(prog))
				hung := false
				for ci, call := range prog {
					cr := r.calls[ci]
					if !cr.started {
						continue
					}
					if !cr.returned {
						add("hang: call " + call.name + " did not return within 5s")
						hung = true
						continue
					}
					c04ErrStat(c, "callerr", cr.err)
					if miss[ci] == 0 && comp[ci] == refComplete[ci] {
						// every reply this call needs had been received completely before the failure
						c.Stat("expect_value")
						if cr.err != nil {
							add(fmt.Sprintf("complete-reply-dropped: call %s failed although all %d replies it needs were delivered completely", call.name, comp[ci]))
						} else if cr.val != ref.calls[ci].val {
							add("wrong-value: call " + call.name + " returned a value different from the uncut run")
						}
					} else {
						c.Stat("expect_error")
						if cr.err == nil {
							add(fmt.Sprintf("lost-reply-no-error: call %s returned nil error although only %d of the %d replies it needs arrived completely", call.name, comp[ci], refComplete[ci]))
						}
					}
				}
				if !hung {
					if r.afterHang {
						add("hang: a Stat started after the failure did not return within 5s")
					} else if r.afterErr == nil {
						add("after-failure-no-error: a Stat started after the failure returned nil")
					}
					c04ErrStat(c, "aftererr", r.afterErr)
				}
				if r.waitHang {
					add("wait-hang: Client.Wait did not return within 5s of the failure")
				} else {
					c04ErrStat(c, "waiterr", r.waitErr)
				}
				if r.closeHang {
					add("close-hang: Client.Close did not return within 5s")
				}
			}
			if r.peerStuck {
				add("harness: the scripted peer did not stop")
			}
			if lr := c04LeakReason(r); lr != "" {
				add(lr)
			}
			if r.cutInFrame || r.cutInflight >= 2 {
				c.NT(n)
			}
			if r.cutInFrame {
				c.Stat("cut_inside_frame")
			}
			c.Stat(fmt.Sprintf("cut_inflight_%02d", r.cutInflight))
			if !r.cutEarly {
				c.Stat("cut_after_last_reply")
			}
			if len(reasons) == 0 {
				c.Oracle(n, true, "")
			} else {
				c.Oracle(n, false, strings.Join(reasons, " ; "))
			}
		}

		for _, mode := range []string{"eof", "err"} {
			for k := 0; k <= L+64; k++ { // +64: room for read-ahead replies (24 bytes each) before the final replies
				n := c.Case("cut", kvi("k", k), kvs("mode", mode), kvi("sess", v), kvi("lag", lag))
				c.Stat("mode_" + mode)
				evaluate(n, c04Session(v, mode, k, -1, false, lag))
			}
		}
		// the writer fails and nothing else happens: the reply direction stays open and silent
		for j := 0; j <= J+3; j++ {
			n := c.Case("cut", kvi("k", j), kvs("mode", "wfail"), kvi("sess", v), kvi("lag", lag), kvb("part", false), kvb("weof", false), kvb("wonly", true))
			c.Stat("mode_wfail_write_side_only")
			c04WriteOnly = true
			evaluate(n, c04Session(v, "wfail", -1, j, false, lag))
			c04WriteOnly = false
		}
		for _, part := range []bool{false, true} {
			for _, weof := range []bool{false, true} {
				for j := 0; j <= J+3; j++ {
					n := c.Case("cut", kvi("k", j), kvs("mode", "wfail"), kvi("sess", v), kvi("lag", lag), kvb("part", part), kvb("weof", weof))
					c.Stat("mode_wfail")
					if weof {
						c04WErr = io.EOF
						c.Stat("mode_wfail_write_error_is_io_EOF")
					}
					evaluate(n, c04Session(v, "wfail", -1, j, part, lag))
					c04WErr = errC04Link
				}
			}
		}
	}

	// stress: callers registering requests while the receiver shuts down
	rounds := 40
	if c.Thorough() {
		rounds = 4000
	}
	for round := 0; round < rounds; round++ {
		for _, G := range []int{2, 4, 8} {
			for _, mode := range []string{"eof", "err", "wfail"} {
				budget, failAt, part := -1, -1, false
				k := 0
				if mode == "wfail" {
					failAt = 3 + c.Rng.Intn(600)
					part = c.Rng.Intn(2) == 0
					k = failAt
					if round%2 == 1 {
						c04WErr = io.EOF
					}
				} else {
					budget = 40 + c.Rng.Intn(30000)
					k = budget
				}
				seed := c.Rng.Int63n(1 << 40)
				lag := c.Rng.Intn(G) // 0: answer at once; up to g-1 replies held
				n := c.Case("stress", kvi("g", G), kvs("mode", mode), kvi("k", k), kvb("part", part), kvi("lag", lag), kvx("seed", uint64(seed)))
				c.Stat("stress_mode_" + mode)
				r, sr := c04Stress(c, G, mode, budget, failAt, part, lag, seed)
				c04WErr = errC04Link
				reasons := append([]string(nil), sr.reasons...)
				if r.newHang {
					reasons = append(reasons, "hang: NewClientPipe did not return within 5s")
				} else if r.newErr != nil {
					reasons = append(reasons, "harness: stress session could not start")
				} else {
					if r.afterHang {
						reasons = append(reasons, "hang: a Stat started after the failure did not return within 5s")
					} else if r.afterErr == nil {
						reasons = append(reasons, "after-failure-no-error: a Stat started after the failure returned nil")
					}
					if r.waitHang {
						reasons = append(reasons, "wait-hang: Client.Wait did not return within 5s of the failure")
					}
					if r.closeHang {
						reasons = append(reasons, "close-hang: Client.Close did not return within 5s")
					}
				}
				if r.peerStuck {
					reasons = append(reasons, "harness: the scripted peer did not stop")
				}
				if lr := c04LeakReason(r); lr != "" {
					reasons = append(reasons, lr)
				}
				if r.cutInFrame || r.cutInflight >= 2 {
					c.NT(n)
				}
				c.StatN("stress_ops", sr.ops)
				c.StatN("stress_ops_ok_before_cut", sr.okOps)
				c.Stat(fmt.Sprintf("stress_cut_inflight_%02d", r.cutInflight))
				if len(reasons) == 0 {
					c.Oracle(n, true, "")
				} else {
					c.Oracle(n, false, strings.Join(reasons, " ; "))
				}
			}
		}
	}
}
