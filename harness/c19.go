package main

// C19 — version and extension negotiation is truthful.

import (
	"encoding/binary"
	"fmt"
	"net"
	"strings"
	"time"

	"github.com/pkg/sftp"
)

func init() { register("c19", runC19) }

var extCandidates = []string{"hardlink@openssh.com", "posix-rename@openssh.com", "statvfs@openssh.com", "fsync@openssh.com", "x@example.com", ""}

// rawVersionOf performs INIT against a fresh server of the given kind and returns the VERSION frame body.
func rawVersionOf(reqServer bool) ([]byte, error) {
	c1, c2 := net.Pipe()
	defer c1.Close()
	if _, err := startServer(c2, pairOpt{reqServer: reqServer}); err != nil {
		return nil, err
	}
	c1.SetDeadline(time.Now().Add(5 * time.Second))
	if _, err := c1.Write(rawInit()); err != nil {
		return nil, err
	}
	fr, err := readFrame(c1)
	if err != nil {
		return nil, err
	}
	return fr.Raw[4:], nil
}

func pairsOfVersionBody(body []byte) string {
	if len(body) < 5 || body[0] != fxpVersion {
		return "bad"
	}
	b := body[5:]
	var parts []string
	for len(b) > 0 {
		if len(b) < 4 {
			return "bad"
		}
		l := int(binary.BigEndian.Uint32(b))
		if l+4 > len(b) {
			return "bad"
		}
		n := string(b[4 : 4+l])
		b = b[4+l:]
		if len(b) < 4 {
			return "bad"
		}
		l = int(binary.BigEndian.Uint32(b))
		if l+4 > len(b) {
			return "bad"
		}
		d := string(b[4 : 4+l])
		b = b[4+l:]
		parts = append(parts, hx(n)+":"+hx(d))
	}
	if len(parts) == 0 {
		return "-"
	}
	return strings.Join(parts, "+")
}

// clientAgainst runs NewClientPipe against a peer that answers INIT with the given frame body.
func clientAgainst(body []byte) (accepted bool, exts string, errKind string) {
	c1, c2 := net.Pipe()
	go func() {
		defer c2.Close()
		if _, err := readFrame(c2); err != nil {
			return
		}
		if len(body) > 0 {
			c2.Write(frame(body))
		}
		// keep the link open for a moment so that EOF does not race with the reply
		buf := make([]byte, 64)
		c2.SetReadDeadline(time.Now().Add(2 * time.Second))
		for {
			if _, err := c2.Read(buf); err != nil {
				return
			}
		}
	}()
	type r struct {
		cl  *sftp.Client
		err error
	}
	ch := make(chan r, 1)
	go func() { cl, err := sftp.NewClientPipe(c1, c1); ch <- r{cl, err} }()
	select {
	case x := <-ch:
		if x.err != nil {
			c1.Close()
			return false, "-", sftp.VerifErrKind(unwrapAll(x.err))
		}
		var parts []string
		for _, n := range extCandidates {
			if d, ok := x.cl.HasExtension(n); ok {
				parts = append(parts, hx(n)+":"+hx(d))
			}
		}
		x.cl.Close()
		if len(parts) == 0 {
			return true, "-", "ok"
		}
		return true, strings.Join(parts, "+"), "ok"
	case <-time.After(5 * time.Second):
		c1.Close()
		return false, "-", "hang"
	}
}

func unwrapAll(err error) error {
	for {
		u, ok := err.(interface{ Unwrap() error })
		if !ok || u.Unwrap() == nil {
			return err
		}
		err = u.Unwrap()
	}
}

func runC19(c *Ctx) {
	c.Rule("all sequences of length <= 3 over {the three supported names, an invalid name, the empty call} through SetSFTPExtensions (serial, restored afterwards), handshake of both servers and a real client; " +
		"handshake replies: versions 0,1,2,3,4,2^31,2^32-1 x extension lists x every truncation x wrong type, into NewClientPipe; extended requests with served and other names followed by a normal request; " +
		"non-trivial = configuration sequence containing an invalid or a repeated name, or a handshake reply that is not the valid version-3 reply")
	names := []string{"hardlink@openssh.com", "posix-rename@openssh.com", "statvfs@openssh.com", "bogus@example.com"}
	// calls: each call is a list of names
	var calls [][]string
	calls = append(calls, []string{})
	for _, a := range names {
		calls = append(calls, []string{a})
		for _, b := range names {
			calls = append(calls, []string{a, b})
		}
	}
	calls = append(calls, []string{names[0], names[1], names[2]}, []string{names[2], names[2], names[0]}, []string{names[0], names[1], names[3]})
	defer sftp.SetSFTPExtensions(names[0], names[1], names[2])
	enc := func(seq [][]string) string {
		var parts []string
		for _, call := range seq {
			var ns []string
			for _, n := range call {
				ns = append(ns, hx(n))
			}
			if len(ns) == 0 {
				parts = append(parts, "e")
			} else {
				parts = append(parts, strings.Join(ns, ","))
			}
		}
		return strings.Join(parts, ";")
	}
	runSeq := func(seq [][]string) {
		sftp.SetSFTPExtensions(names[0], names[1], names[2]) // start from the default list
		var oks []string
		for _, call := range seq {
			if err := sftp.SetSFTPExtensions(call...); err != nil {
				oks = append(oks, "0")
			} else {
				oks = append(oks, "1")
			}
		}
		n := c.Case("setext", kvs("seq", enc(seq)))
		nt := false
		for _, call := range seq {
			for i, x := range call {
				if x == names[3] {
					nt = true
				}
				for j := 0; j < i; j++ {
					if call[j] == x {
						nt = true
					}
				}
			}
		}
		if nt {
			c.NT(n)
		}
		ok, why := true, ""
		b1, err1 := rawVersionOf(false)
		b2, err2 := rawVersionOf(true)
		adv := "err"
		if err1 == nil && err2 == nil {
			adv = pairsOfVersionBody(b1)
			if adv2 := pairsOfVersionBody(b2); adv2 != adv {
				ok, why = false, fmt.Sprintf("the two servers advertise different lists: %s vs %s", adv, adv2)
			}
		} else {
			ok, why = false, "handshake failed"
		}
		// a real client against a real server reports exactly the advertised list
		p, err := newPair(pairOpt{})
		cli := "err"
		if err == nil {
			var parts []string
			for _, nme := range extCandidates {
				if d, has := p.Client.HasExtension(nme); has {
					parts = append(parts, hx(nme)+":"+hx(d))
				}
			}
			cli = strings.Join(parts, "+")
			if cli == "" {
				cli = "-"
			}
			// every advertised extension is actually served; others are answered op-unsupported and the session continues
			advSet := map[string]bool{}
			for _, nme := range extCandidates {
				if _, has := p.Client.HasExtension(nme); has {
					advSet[nme] = true
				}
			}
			if advSet["statvfs@openssh.com"] {
				if _, err := p.Client.StatVFS("/"); err != nil {
					ok, why = false, "statvfs advertised but not served: "+err.Error()
				}
			}
			if advSet["posix-rename@openssh.com"] {
				if err := p.Client.PosixRename("/nonexistent-vh-a", "/nonexistent-vh-b"); err != nil && strings.Contains(err.Error(), "SSH_FX_OP_UNSUPPORTED") {
					ok, why = false, "posix-rename advertised but answered unsupported"
				}
			}
			if advSet["hardlink@openssh.com"] {
				if err := p.Client.Link("/nonexistent-vh-a", "/nonexistent-vh-b"); err != nil && strings.Contains(err.Error(), "SSH_FX_OP_UNSUPPORTED") {
					ok, why = false, "hardlink advertised but answered unsupported"
				}
			}
			if _, err := p.Client.Stat("/"); err != nil {
				ok, why = false, "session did not continue: "+err.Error()
			}
			p.Close()
		}
		// the property's own statement: what is advertised is what the last VALID request configured (an invalid request
		// changes nothing); the default is the three supported extensions
		data := map[string]string{names[0]: "1", names[1]: "1", names[2]: "2"}
		want := []string{names[0], names[1], names[2]}
		for ci, call := range seq {
			valid := true
			for _, x := range call {
				if _, ok := data[x]; !ok {
					valid = false
				}
			}
			if valid {
				want = append([]string(nil), call...)
			}
			if got := oks[ci] == "1"; got != valid {
				ok, why = false, fmt.Sprintf("SetSFTPExtensions(%v) returned ok=%v", call, got)
			}
		}
		var wp []string
		for _, x := range want {
			wp = append(wp, hx(x)+":"+hx(data[x]))
		}
		wants := strings.Join(wp, "+")
		if wants == "" {
			wants = "-"
		}
		if adv != wants {
			ok, why = false, fmt.Sprintf("advertised %s but configured %s (sequence %s)", adv, wants, enc(seq))
		}
		c.Obs(n, kvs("oks", strings.Join(oks, "")), kvs("adv", adv), kvs("cli", cli))
		// independent statement: the advertised list equals the last valid call's list (or the default)
		c.Oracle(n, ok, why)
		c.Stat(fmt.Sprintf("setext_len_%d", len(seq)))
	}
	for _, a := range calls {
		runSeq([][]string{a})
	}
	for i := 0; i < len(calls); i += 2 {
		for j := 0; j < len(calls); j += 3 {
			runSeq([][]string{calls[i], calls[j]})
		}
	}
	if c.Thorough() {
		for i := 0; i < 400; i++ {
			runSeq([][]string{calls[c.Rng.Intn(len(calls))], calls[c.Rng.Intn(len(calls))], calls[c.Rng.Intn(len(calls))]})
		}
	}
	sftp.SetSFTPExtensions(names[0], names[1], names[2])

	// handshake replies into the client
	hs := func(body []byte, valid bool) {
		n := c.Case("hs", kvh("reply", body))
		if !valid {
			c.NT(n)
		}
		acc, exts, ek := clientAgainst(body)
		c.Obs(n, kvb("accept", acc), kvs("exts", exts))
		ok, why := true, ""
		if ek == "hang" {
			ok, why = false, "NewClientPipe did not return"
		}
		// independent statement: accepted only if the reply is VERSION with version 3
		if acc && (len(body) < 5 || body[0] != fxpVersion || binary.BigEndian.Uint32(body[1:]) != 3) {
			ok, why = false, "client accepted a handshake that is not a version-3 VERSION packet"
		}
		// ... and only if what follows the version is a whole number of well-formed (name, data) string pairs
		if ok && acc && len(body) >= 5 && !c19PairsWellFormed(body[5:]) {
			ok, why = false, "client accepted a VERSION packet whose extension list is not a sequence of whole (name, data) pairs"
		}
		c.Oracle(n, ok, why)
		c.Stat("hs_" + ek)
	}
	extLists := [][][2]string{nil, {{"statvfs@openssh.com", "2"}}, {{"fsync@openssh.com", "1"}, {"x@example.com", "data"}}, {{"hardlink@openssh.com", "1"}, {"hardlink@openssh.com", "9"}}, {{"", ""}}}
	for _, v := range []uint32{0, 1, 2, 3, 4, 1 << 31, 1<<32 - 1} {
		for li, l := range extLists {
			r := (&rb{}).u8(fxpVersion).u32(v)
			for _, e := range l {
				r.str(e[0]).str(e[1])
			}
			hs(r.b, v == 3)
			if v == 3 {
				for k := 0; k < len(r.b); k++ {
					hs(r.b[:k], false)
				}
				for _, t := range []byte{1, 3, 101, 102, 200, 201, 0, 255} {
					m := append([]byte(nil), r.b...)
					m[0] = t
					hs(m, false)
				}
				if li > 0 {
					// inflate a length field
					for off := 5; off+4 <= len(r.b); off += 3 {
						m := append([]byte(nil), r.b...)
						binary.BigEndian.PutUint32(m[off:], 0x7fffffff)
						hs(m, false)
					}
				}
			}
		}
	}

	// well-formed packets of OTHER types in answer to INIT (a server that refuses the handshake with a STATUS - INIT has no request
	// id, so such a server would use 0 -, or is confused about what it is answering): never a session
	for _, id := range []uint32{0, 3, 1} {
		for _, code := range []uint32{0, 1, 2, 4, 8} {
			full := (&rb{}).u8(fxpStatus).u32(id).u32(code).str("msg").str("en").b
			hs(full, false)
			hs((&rb{}).u8(fxpStatus).u32(id).u32(code).str("").str("").b, false)
			hs((&rb{}).u8(fxpStatus).u32(id).u32(code).b, false)
			hs(full[:len(full)-3], false)
		}
		hs((&rb{}).u8(fxpHandle).u32(id).str("h").b, false)
		hs((&rb{}).u8(fxpData).u32(id).str("data").b, false)
		hs((&rb{}).u8(fxpAttrs).u32(id).u32(0).b, false)
		hs((&rb{}).u8(fxpName).u32(id).u32(0).b, false)
	}
	// extended requests by name against both servers, followed by a normal request
	for cfg, reqServer := range []bool{false, true, false} {
		readOnly := cfg == 2 // third configuration: the os-backed server with ReadOnly()
		rs, err := newRawSession(pairOpt{reqServer: reqServer, handlers: nullHandlerSet(), readOnly: readOnly})
		if err != nil {
			c.Diag("raw session: %v", err)
			continue
		}
		for i, name := range []string{"hardlink@openssh.com", "posix-rename@openssh.com", "statvfs@openssh.com", "fsync@openssh.com", "x@example.com", "", "statvfs@openssh.co", "STATVFS@OPENSSH.COM",
			// names are the peer's bytes: nothing in them (a per cent sign, a NUL, a line break, non-ASCII, 300 characters) is special
			"100%-made-up@example.com", "%", "%s", "%w", "%!d(x)@example.com", "statvfs%40openssh.com", "a\x00b@example.com", "line\nbreak@example.com",
			"\xfc\xf6@\xe4.example", strings.Repeat("n", 300) + "@example.com"} {
			if rs == nil {
				if rs, err = newRawSession(pairOpt{reqServer: reqServer, handlers: nullHandlerSet(), readOnly: readOnly}); err != nil {
					c.Diag("raw session: %v", err)
					break
				}
			}
			payload := (&rb{}).str("/nonexistent-vh-a").str("/nonexistent-vh-b").b
			if strings.HasPrefix(name, "statvfs") {
				payload = (&rb{}).str("/").b
			}
			resp, err := rs.do(rawExtended(uint32(500+i), name, payload))
			n := c.Case("extreq", kvh("name", []byte(name)), kvb("req", reqServer), kvb("readonly", readOnly))
			code, isStatus := uint32(0), false
			if err == nil {
				code, isStatus = resp.statusCode()
			}
			unsupported := isStatus && code == 8
			next, nerr := rs.do(rawPathOp(fxpRealpath, 900, "/"))
			cont := nerr == nil && next != nil && next.ID == 900
			if !reqServer && !readOnly {
				c.Obs(n, kvb("unsupported", unsupported), kvb("cont", cont))
			}
			ok, why := true, ""
			if err != nil || !cont {
				ok, why = false, fmt.Sprintf("session ended after extended request %q", name)
				rs.Close() // the next name gets a session of its own
				rs = nil
			} else if i >= 3 && !unsupported {
				// a name the server does not serve is answered "operation unsupported" whatever the server's configuration
				ok, why = false, fmt.Sprintf("unknown-extension-not-unsupported: extended request %q answered status %d (is status: %v) instead of 8 (req=%v readonly=%v)", name, code, isStatus, reqServer, readOnly)
			}
			c.Oracle(n, ok, why)
			if i >= 3 {
				c.NT(n)
			}
		}
		// unknown names with bodies that are not what any known extension carries: nothing after the name, one to three bytes, a
		// string length that reaches beyond the packet, a lone string - the name alone decides: "operation unsupported", and the
		// session goes on
		for i, name := range []string{"x@example.com", "limits@openssh.com", "statvfs@openssh.co", ""} {
			for j, body := range [][]byte{{}, {0}, {0, 0, 1}, {0, 0, 0, 9, 'a', 'b'}, (&rb{}).str("only-one").b, {0xff, 0xff, 0xff, 0xff}} {
				if rs == nil {
					if rs, err = newRawSession(pairOpt{reqServer: reqServer, handlers: nullHandlerSet(), readOnly: readOnly}); err != nil {
						c.Diag("raw session: %v", err)
						break
					}
				}
				id := uint32(700 + 10*i + j)
				resp, err := rs.do(rawExtended(id, name, body))
				n := c.Case("extreq", kvh("name", []byte(name)), kvb("req", reqServer), kvb("readonly", readOnly), kvh("body", body))
				code, isStatus := uint32(0), false
				if err == nil {
					code, isStatus = resp.statusCode()
				}
				unsupported := isStatus && code == 8
				next, nerr := rs.do(rawPathOp(fxpRealpath, 900, "/"))
				cont := nerr == nil && next != nil && next.ID == 900
				if !reqServer && !readOnly {
					c.Obs(n, kvb("unsupported", unsupported), kvb("cont", cont))
				}
				ok, why := true, ""
				if err != nil || !cont {
					ok, why = false, fmt.Sprintf("session ended after extended request %q with a %d-byte body", name, len(body))
					rs.Close()
					rs = nil
				} else if !unsupported {
					ok, why = false, fmt.Sprintf("unknown-extension-not-unsupported: extended request %q with a %d-byte body answered status %d (is status: %v) instead of 8 (req=%v readonly=%v)", name, len(body), code, isStatus, reqServer, readOnly)
				}
				c.Oracle(n, ok, why)
				c.NT(n)
				c.Stat("unknown_extension_odd_bodies")
			}
		}
		if rs != nil {
			rs.Close()
		}
	}
}

// c19PairsWellFormed: b is exactly a sequence of length-prefixed string pairs
func c19PairsWellFormed(b []byte) bool {
	for len(b) > 0 {
		for k := 0; k < 2; k++ {
			if len(b) < 4 {
				return false
			}
			l := binary.BigEndian.Uint32(b)
			if uint64(l) > uint64(len(b)-4) {
				return false
			}
			b = b[4+l:]
		}
	}
	return true
}
