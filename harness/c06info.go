package main

import (
	"bytes"
	"fmt"
	"os"
	"time"

	"github.com/pkg/sftp"
)

// c06 kind infoattrs: codec A marshals the attributes of OPEN / SETSTAT / FSETSTAT from three forms - raw bytes, a *FileStat, an
// os.FileInfo. The third takes its values from the entry (fileStatFromInfo) and its field selection from the packet's attribute
// flags. For every open mode x every attribute-flag subset the bytes are those of the same packet carrying the same values as a
// *FileStat (which the other cases compare with the model and with codec B): one logical packet, one encoding.
func c06InfoAttrs(c *Ctx) {
	fi := c17Owned{fakeInfo{name: "f", size: 0x1122334455, mode: 0o640, mt: time.Unix(1600000000, 0)}, 1001, 1002}
	_, fs := sftp.VerifFileStatFromInfo(fi)
	for _, kind := range []string{"open", "setstat", "fsetstat"} {
		for _, pflags := range []uint32{1, 2, 3, 0x1a, 0x2b, 0x3f, 0} {
			if kind != "open" && pflags != 1 {
				continue
			}
			for flags := uint32(0); flags < 16; flags++ {
				cn := c.Case("infoattrs", kvs("kind", kind), kvx("pflags", uint64(pflags)), kvx("flags", uint64(flags)))
				if flags != 0 {
					c.NT(cn)
				}
				c.Stat("infoattrs_cases")
				got, err := sftp.VerifEncAOpenFileInfo(kind, 7, "/p", pflags, flags, fi)
				p := &sftp.VerifPacket{Kind: kind, ID: 7, S1: "/p", N1: uint64(pflags), N2: uint64(flags),
					Attrs: &sftp.VerifAttrs{Flags: flags, Size: fs.Size, UID: fs.UID, GID: fs.GID, Perm: fs.Mode, Atime: fs.Atime, Mtime: fs.Mtime}}
				if kind != "open" {
					p.N1 = 0
				}
				want, err2 := sftp.VerifEncA(p)
				why := ""
				switch {
				case err != nil || err2 != nil:
					why = fmt.Sprintf("harness: encode: %v / %v", err, err2)
				case !bytes.Equal(got, want):
					why = fmt.Sprintf("codec A encodes %s (pflags %x, attribute flags %x) differently when the attributes come as an os.FileInfo: %x, as a *FileStat with the same values: %x", kind, pflags, flags, trunc(got), trunc(want))
				}
				c.Oracle(cn, why == "", why)
			}
		}
	}
	_ = os.ModePerm
}
