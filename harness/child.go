package main

// Crash-isolated evaluation: a child process (address-space limited) answers one request per line.

import (
	"bufio"
	"fmt"
	"io"
	"os"
	"os/exec"
	"strings"
	"time"
)

type childProc struct {
	entry string
	memKB int
	cmd   *exec.Cmd
	in    io.WriteCloser
	out   *bufio.Reader
	lines chan string
}

func startChild(entry string, memKB int) (*childProc, error) {
	self, err := os.Executable()
	if err != nil {
		return nil, err
	}
	sh := fmt.Sprintf("ulimit -v %d; exec %q child %s", memKB, self, entry)
	cmd := exec.Command("sh", "-c", sh)
	in, _ := cmd.StdinPipe()
	outp, _ := cmd.StdoutPipe()
	cmd.Stderr = io.Discard
	if err := cmd.Start(); err != nil {
		return nil, err
	}
	c := &childProc{entry: entry, memKB: memKB, cmd: cmd, in: in, out: bufio.NewReaderSize(outp, 1<<20), lines: make(chan string, 1)}
	go func() {
		for {
			l, err := c.out.ReadString('\n')
			if err != nil {
				close(c.lines)
				return
			}
			c.lines <- strings.TrimRight(l, "\n")
		}
	}()
	return c, nil
}

// ask sends one request line; returns the answer, or ok=false when the child died or timed out.
func (c *childProc) ask(req string, timeout time.Duration) (string, bool) {
	if _, err := io.WriteString(c.in, req+"\n"); err != nil {
		return "", false
	}
	select {
	case l, ok := <-c.lines:
		return l, ok
	case <-time.After(timeout):
		return "", false
	}
}

func (c *childProc) kill() {
	c.in.Close()
	c.cmd.Process.Kill()
	c.cmd.Wait()
}

// childLoop is the body of a child entry: read request lines, answer each with one line.
func childLoop(handle func(req string) string) {
	r := bufio.NewReaderSize(os.Stdin, 1<<22)
	w := bufio.NewWriterSize(os.Stdout, 1<<20)
	for {
		l, err := r.ReadString('\n')
		if l != "" {
			fmt.Fprintln(w, handle(strings.TrimRight(l, "\n")))
			w.Flush()
		}
		if err != nil {
			return
		}
	}
}
