package main

// C17 — modes and attributes. Families: c17 (exhaustive conversion tie + real files + SETSTAT subsets).

import (
	"fmt"
	"os"
	"path/filepath"
	"sort"
	"strconv"
	"strings"
	"syscall"
	"time"

	"github.com/pkg/sftp"
)

func init() { register("c17", runC17) }

type fakeInfo struct {
	name string
	size int64
	mode os.FileMode
	mt   time.Time
}

func (f fakeInfo) Name() string       { return f.name }
func (f fakeInfo) Size() int64        { return f.size }
func (f fakeInfo) Mode() os.FileMode  { return f.mode }
func (f fakeInfo) ModTime() time.Time { return f.mt }
func (f fakeInfo) IsDir() bool        { return f.mode.IsDir() }
func (f fakeInfo) Sys() any           { return nil }

var osTypes = []os.FileMode{0, os.ModeDir, os.ModeSymlink, os.ModeDevice, os.ModeDevice | os.ModeCharDevice, os.ModeNamedPipe, os.ModeSocket}

func validWireType(w uint32) bool {
	switch w & 0xF000 {
	case 0x1000, 0x2000, 0x4000, 0x6000, 0x8000, 0xA000, 0xC000:
		return true
	}
	return false
}

// independent reading of an ls-style mode column (oracle side)
func parseModeCol(s string) (uint32, bool) {
	if len(s) != 10 {
		return 0, false
	}
	var w uint32
	switch s[0] {
	case '-':
		w = 0x8000
	case 'd':
		w = 0x4000
	case 'l':
		w = 0xA000
	case 'b':
		w = 0x6000
	case 'c':
		w = 0x2000
	case 'p':
		w = 0x1000
	case 's':
		w = 0xC000
	default:
		return 0, false
	}
	for i := 1; i <= 9; i++ {
		bit := uint32(1) << uint(9-i)
		c := s[i]
		plain := "rwx"[(i-1)%3]
		switch {
		case c == plain:
			w |= bit
		case c == '-':
		case i == 3 && c == 's':
			w |= bit | 0o4000
		case i == 3 && c == 'S':
			w |= 0o4000
		case i == 6 && c == 's':
			w |= bit | 0o2000
		case i == 6 && c == 'S':
			w |= 0o2000
		case i == 9 && c == 't':
			w |= bit | 0o1000
		case i == 9 && c == 'T':
			w |= 0o1000
		default:
			return 0, false
		}
	}
	return w, true
}

func runC17(c *Ctx) {
	c.Rule("exhaustive: all 2^16 wire mode words and all 7x512x8 os modes through the Go conversion functions (hooks); " +
		"non-trivial = word/mode with a type other than regular or at least one special bit; plus real files of every creatable kind and SETSTAT with all 16 flag subsets")
	// 1. all wire words
	for w := uint32(0); w < 1<<16; w++ {
		fm := sftp.VerifToFileMode(w)
		back := sftp.VerifFromFileMode(fm)
		str := sftp.VerifModeString(w)
		n := c.Case("mode_w", kvx("w", uint64(w)))
		c.Obs(n, kvx("to", uint64(fm)), kvx("fromto", uint64(back)), kvb("reg", sftp.VerifIsRegular(w)), kvh("str", []byte(str)))
		ok, why := true, ""
		if validWireType(w) {
			if back != w {
				ok, why = false, fmt.Sprintf("wire %#o -> os %v -> wire %#o: not lossless", w, fm, back)
			}
			if pw, pok := parseModeCol(str); !pok || pw != w {
				ok, why = false, fmt.Sprintf("mode column %q of %#o reads back as %#o", str, w, pw)
			}
			if sftp.VerifIsRegular(w) != fm.IsRegular() {
				ok, why = false, fmt.Sprintf("isRegular(%#o) disagrees with os mode %v", w, fm)
			}
		} else if back&0xFFF != w&0xFFF {
			ok, why = false, fmt.Sprintf("wire %#o: permission/special bits lost (%#o)", w, back)
		}
		c.Oracle(n, ok, why)
		if w&0xF000 != 0x8000 || w&0o7000 != 0 {
			c.NT(n)
		}
		c.Stat(fmt.Sprintf("wire_type_%x", w>>12))
	}
	// 2. all os modes
	for _, ty := range osTypes {
		for p := os.FileMode(0); p < 512; p++ {
			for s := 0; s < 8; s++ {
				m := ty | p
				if s&4 != 0 {
					m |= os.ModeSetuid
				}
				if s&2 != 0 {
					m |= os.ModeSetgid
				}
				if s&1 != 0 {
					m |= os.ModeSticky
				}
				w := sftp.VerifFromFileMode(m)
				back := sftp.VerifToFileMode(w)
				ch := sftp.VerifToChmodPerm(m)
				ls := sftp.VerifRunLs(fakeInfo{name: "x", mode: m, mt: time.Unix(0, 0)})
				col := ls
				if len(col) > 10 {
					col = col[:10]
				}
				n := c.Case("mode_os", kvx("m", uint64(m)))
				c.Obs(n, kvx("from", uint64(w)), kvx("tofrom", uint64(back)), kvx("chmod", uint64(ch)), kvh("lsmode", []byte(col)))
				ok, why := true, ""
				if back != m {
					ok, why = false, fmt.Sprintf("os %v -> wire %#o -> os %v: not lossless", m, w, back)
				}
				if ch != uint32(p)|uint32(s)<<9 {
					ok, why = false, fmt.Sprintf("toChmodPerm(%v) = %#o", m, ch)
				}
				if pw, pok := parseModeCol(col); !pok || pw != w {
					ok, why = false, fmt.Sprintf("long name mode column %q disagrees with attributes %#o", col, w)
				}
				c.Oracle(n, ok, why)
				if ty != 0 || s != 0 {
					c.NT(n)
				}
				c.Stat("os_type_" + strings.ReplaceAll(ty.String(), "-", ""))
			}
		}
	}
	c17RunLs(c)
	c17ListedLongNames(c)
	c17Real(c)
}

type snapEnt struct {
	Mode  os.FileMode
	Size  int64
	Mtime int64
	Atime int64
	UID   uint32
	GID   uint32
}

func lsnap(p string) (snapEnt, error) {
	fi, err := os.Lstat(p)
	if err != nil {
		return snapEnt{}, err
	}
	st := fi.Sys().(*syscall.Stat_t)
	return snapEnt{fi.Mode(), fi.Size(), fi.ModTime().Unix(), st.Atim.Sec, st.Uid, st.Gid}, nil
}

// c17Real: real files of every kind through Client.Stat/Lstat/ReadDir vs os.Lstat, then SETSTAT with every flag subset.
func c17Real(c *Ctx) {
	dir, err := os.MkdirTemp("", "vh-c17-")
	if err != nil {
		c.Diag("mktemp: %v", err)
		return
	}
	defer os.RemoveAll(dir)
	kinds := map[string]bool{}
	os.WriteFile(filepath.Join(dir, "reg"), []byte("hello world"), 0o640)
	kinds["regular"] = true
	os.Mkdir(filepath.Join(dir, "dir"), 0o2751)
	os.Chmod(filepath.Join(dir, "dir"), 0o751|os.ModeSetgid|os.ModeSticky)
	kinds["dir"] = true
	os.Symlink("reg", filepath.Join(dir, "lnk"))
	kinds["symlink"] = true
	if syscall.Mkfifo(filepath.Join(dir, "fifo"), 0o600) == nil {
		kinds["fifo"] = true
	}
	if l, err := netListenUnix(filepath.Join(dir, "sock")); err == nil {
		defer l.Close()
		kinds["socket"] = true
	}
	if syscall.Mknod(filepath.Join(dir, "chr"), syscall.S_IFCHR|0o620, 1<<8|3) == nil {
		kinds["chardev"] = true
	}
	if syscall.Mknod(filepath.Join(dir, "blk"), syscall.S_IFBLK|0o660, 7<<8|0) == nil {
		kinds["blockdev"] = true
	}
	os.WriteFile(filepath.Join(dir, "suid"), []byte("x"), 0o755)
	os.Chmod(filepath.Join(dir, "suid"), 0o755|os.ModeSetuid)
	os.Chown(filepath.Join(dir, "reg"), 1234, 4321)
	os.Chtimes(filepath.Join(dir, "reg"), time.Unix(1000000000, 0), time.Unix(1100000000, 0))
	// times beyond 2038 (second counts that do not fit a signed 32-bit integer) and at the top of the wire's uint32 range
	os.WriteFile(filepath.Join(dir, "late2040"), []byte("late"), 0o644)
	os.Chtimes(filepath.Join(dir, "late2040"), time.Unix(2300000000, 0), time.Unix(2208988800, 0))
	os.WriteFile(filepath.Join(dir, "late2106"), []byte("later"), 0o600)
	os.Chtimes(filepath.Join(dir, "late2106"), time.Unix(4294967295, 0), time.Unix(4294967294, 0))
	os.WriteFile(filepath.Join(dir, "settime"), []byte("s"), 0o644)
	ks := []string{}
	for k := range kinds {
		ks = append(ks, k)
	}
	sort.Strings(ks)
	c.Diag("c17 file kinds created: %s", strings.Join(ks, ","))

	for _, cfg := range []pairOpt{{}, {alloc: true}, {workDir: dir}} {
		p, err := newPair(cfg)
		if err != nil {
			c.Diag("pair: %v", err)
			continue
		}
		base := dir
		if cfg.workDir != "" {
			base = "."
		}
		ents, err := os.ReadDir(dir)
		if err != nil {
			c.Diag("readdir: %v", err)
		}
		// Chtimes through the client, to times before and beyond 2038: the file system must show exactly those seconds
		// (and to the epoch itself, second 0, one of the two or both: a value like any other, not "no time given")
		for ti, tm := range [][2]int64{{1700000000, 1600000000}, {2400000000, 2500000000}, {4000000000, 2147483648},
			{0, 1600000001}, {1700000001, 0}, {1700000002, 1600000002}, {0, 0}, {1, 1}} {
			cerr := p.Client.Chtimes(filepath.Join(base, "settime"), time.Unix(tm[0], 0), time.Unix(tm[1], 0))
			got, _ := lsnap(filepath.Join(dir, "settime"))
			n := c.Case("real_chtimes", kvi("t", ti), kvb("workdir", cfg.workDir != ""), kvb("alloc", cfg.alloc))
			c.NT(n)
			switch {
			case cerr != nil:
				c.Oracle(n, false, "Chtimes: "+cerr.Error())
			case got.Mtime != tm[1] || got.Atime != tm[0]:
				c.Oracle(n, false, fmt.Sprintf("Chtimes(atime %d, mtime %d) left atime %d, mtime %d on the file", tm[0], tm[1], got.Atime, got.Mtime))
			default:
				c.Oracle(n, true, "")
			}
			c.Stat("real_chtimes")
		}
		// owner and mode through every setter the client has, by path and by open handle: the file system must show exactly
		// what was asked for (chown needs root, which this sandbox runs as; without it the case is recorded as skipped)
		type setCase struct {
			setter string
			mode   os.FileMode
		}
		var setCases []setCase
		for _, st := range []string{"Client.Chown", "File.Chown"} {
			setCases = append(setCases, setCase{st, 0})
		}
		for _, st := range []string{"Client.Chmod", "File.Chmod"} {
			for _, m := range []os.FileMode{0o640, 0o7, os.ModeSetuid | 0o755, os.ModeSetgid | 0o750, os.ModeSticky | 0o777, os.ModeSetuid | os.ModeSetgid | os.ModeSticky | 0o700} {
				setCases = append(setCases, setCase{st, m})
			}
		}
		for si, sc := range setCases {
			setter := sc.setter
			target := filepath.Join(dir, "settime")
			rtarget := filepath.Join(base, "settime")
			uid, gid, mode := 1234+si, 5678+si, sc.mode
			var serr error
			switch setter {
			case "Client.Chown":
				serr = p.Client.Chown(rtarget, uid, gid)
			case "Client.Chmod":
				serr = p.Client.Chmod(rtarget, mode)
			default:
				f, err := p.Client.OpenFile(rtarget, os.O_RDWR)
				if err != nil {
					serr = err
					break
				}
				if setter == "File.Chown" {
					serr = f.Chown(uid, gid)
				} else {
					serr = f.Chmod(mode)
				}
				f.Close()
			}
			got, _ := lsnap(target)
			n := c.Case("real_setowner", kvs("setter", setter), kvx("mode", uint64(mode)), kvb("workdir", cfg.workDir != ""), kvb("alloc", cfg.alloc))
			c.NT(n)
			c.Stat("real_setowner")
			switch {
			case serr != nil && os.Geteuid() != 0 && strings.HasSuffix(setter, "Chown"):
				c.Stat("real_setowner_skipped_not_root")
				c.Oracle(n, true, "")
			case serr != nil:
				c.Oracle(n, false, setter+": "+serr.Error())
			case strings.HasSuffix(setter, "Chown") && (int(got.UID) != uid || int(got.GID) != gid):
				c.Oracle(n, false, fmt.Sprintf("%s(%d, %d) left owner %d:%d on the file", setter, uid, gid, got.UID, got.GID))
			case strings.HasSuffix(setter, "Chmod") && got.Mode&(os.ModePerm|os.ModeSetuid|os.ModeSetgid|os.ModeSticky) != mode:
				c.Oracle(n, false, fmt.Sprintf("%s(%v) left mode %v on the file", setter, mode, got.Mode&(os.ModePerm|os.ModeSetuid|os.ModeSetgid|os.ModeSticky)))
			default:
				c.Oracle(n, true, "")
			}
		}
		// the same through a path whose last component is a symbolic link: SETSTAT by path acts on the file the path resolves
		// to (chown(2), chmod(2), utimes(2) all follow), the link itself keeps its owner
		if os.Geteuid() == 0 {
			os.WriteFile(filepath.Join(dir, "referent"), []byte("r"), 0o600)
			os.Symlink("referent", filepath.Join(dir, "via"))
			linkBefore, _ := lsnap(filepath.Join(dir, "via"))
			for _, setter := range []string{"Client.Chown", "Client.Chmod"} {
				uid, gid, mode := 4321, 8765, os.FileMode(0o604)
				var serr error
				if setter == "Client.Chown" {
					serr = p.Client.Chown(filepath.Join(base, "via"), uid, gid)
				} else {
					serr = p.Client.Chmod(filepath.Join(base, "via"), mode)
				}
				ref, _ := lsnap(filepath.Join(dir, "referent"))
				linkAfter, _ := lsnap(filepath.Join(dir, "via"))
				n := c.Case("real_setowner", kvs("setter", setter+"-via-symlink"), kvx("mode", uint64(mode)), kvb("workdir", cfg.workDir != ""), kvb("alloc", cfg.alloc))
				c.NT(n)
				c.Stat("real_set_through_symlink")
				switch {
				case serr != nil:
					c.Oracle(n, false, setter+" through a symbolic link: "+serr.Error())
				case setter == "Client.Chown" && (int(ref.UID) != uid || int(ref.GID) != gid):
					c.Oracle(n, false, fmt.Sprintf("%s(%d, %d) on a path ending in a symbolic link left owner %d:%d on the file it names (the link itself: %d:%d -> %d:%d)", setter, uid, gid, ref.UID, ref.GID, linkBefore.UID, linkBefore.GID, linkAfter.UID, linkAfter.GID))
				case setter == "Client.Chown" && (linkAfter.UID != linkBefore.UID || linkAfter.GID != linkBefore.GID):
					c.Oracle(n, false, fmt.Sprintf("%s on a path ending in a symbolic link changed the owner of the link itself (%d:%d -> %d:%d)", setter, linkBefore.UID, linkBefore.GID, linkAfter.UID, linkAfter.GID))
				case setter == "Client.Chmod" && ref.Mode&os.ModePerm != mode:
					c.Oracle(n, false, fmt.Sprintf("%s(%v) on a path ending in a symbolic link left mode %v on the file it names", setter, mode, ref.Mode&os.ModePerm))
				default:
					c.Oracle(n, true, "")
				}
			}
			os.Remove(filepath.Join(dir, "via"))
			os.Remove(filepath.Join(dir, "referent"))
		}
		listed, lerr := p.Client.ReadDir(base)
		byName := map[string]os.FileInfo{}
		for _, fi := range listed {
			byName[fi.Name()] = fi
		}
		for _, e := range ents {
			want, _ := lsnap(filepath.Join(dir, e.Name()))
			n := c.Case("real_stat", kvs("name", e.Name()), kvb("workdir", cfg.workDir != ""), kvb("alloc", cfg.alloc))
			c.NT(n)
			ok, why := true, ""
			check := func(what string, fi os.FileInfo, err error) {
				if err != nil {
					ok, why = false, fmt.Sprintf("%s(%s): %v", what, e.Name(), err)
					return
				}
				st, _ := fi.Sys().(*sftp.FileStat)
				if fi.Mode() != want.Mode || fi.Size() != want.Size || fi.ModTime().Unix() != want.Mtime ||
					st == nil || st.UID != want.UID || st.GID != want.GID {
					ok, why = false, fmt.Sprintf("%s(%s) = mode %v size %d mtime %d sys %+v; os.Lstat = %+v", what, e.Name(), fi.Mode(), fi.Size(), fi.ModTime().Unix(), st, want)
				}
			}
			fi, err := p.Client.Lstat(filepath.Join(base, e.Name()))
			check("Lstat", fi, err)
			if lerr != nil {
				ok, why = false, "ReadDir: "+lerr.Error()
			} else if fi2, found := byName[e.Name()]; !found {
				ok, why = false, "ReadDir misses "+e.Name()
			} else {
				check("ReadDir", fi2, nil)
			}
			if want.Mode&os.ModeSymlink == 0 {
				fi3, err := p.Client.Stat(filepath.Join(base, e.Name()))
				check("Stat", fi3, err)
			}
			c.Oracle(n, ok, why)
			c.Stat("real_kind_" + strings.ReplaceAll(want.Mode.Type().String(), "-", ""))
		}
		p.Close()
	}

	// SETSTAT / FSETSTAT with every subset of {size, uidgid, perm, acmodtime}: exactly the flagged attributes change.
	for _, viaHandle := range []bool{false, true} {
		for flags := uint32(0); flags < 16; flags++ {
			for variant := 0; variant < 2; variant++ {
				target := filepath.Join(dir, fmt.Sprintf("t%d_%d_%v", flags, variant, viaHandle))
				os.WriteFile(target, []byte("0123456789abcdef"), 0o600)
				os.Chown(target, 100, 200)
				os.Chtimes(target, time.Unix(1500000000, 0), time.Unix(1400000000, 0))
				before, _ := lsnap(target)
				size := uint64(5 + 20*variant)
				uid, gid := uint32(300+variant), uint32(400+variant)
				perm := uint32(0o100640 + 0o111*variant)
				if variant == 1 {
					// chown(2) clears setuid/setgid on regular files (kernel behaviour, also under OpenSSH's server):
					// combine setuid only with requests that do not change the owner, sticky otherwise
					if flags&2 == 0 {
						perm |= 0o4000
					} else {
						perm |= 0o1000
					}
				}
				atime, mtime := uint32(1600000000+variant), uint32(1300000000+variant)
				rs, err := newRawSession(pairOpt{})
				if err != nil {
					c.Diag("raw session: %v", err)
					return
				}
				var resp *rawResp
				if viaHandle {
					hr, err := rs.do(rawOpen(1, target, 3, 0, nil))
					h, okh := "", false
					if err == nil {
						h, okh = hr.handle()
					}
					if !okh {
						c.Diag("open for fsetstat failed")
						rs.Close()
						continue
					}
					resp, err = rs.do(rawFsetstat(2, h, flags, attrBlock(flags, size, uid, gid, perm, atime, mtime)))
					rs.do(rawHandleOp(fxpClose, 3, h))
				} else {
					resp, err = rs.do(rawSetstat(2, target, flags, attrBlock(flags, size, uid, gid, perm, atime, mtime)))
				}
				rs.Close()
				after, _ := lsnap(target)
				n := c.Case("setstat", kvx("flags", uint64(flags)), kvx("size", size), kvx("mode", uint64(perm)), kvx("mtime", uint64(mtime)),
					kvx("atime", uint64(atime)), kvx("uid", uint64(uid)), kvx("gid", uint64(gid)), kvb("handle", viaHandle))
				if flags != 0 {
					c.NT(n)
				}
				// observed ops, derived from the snapshot difference (every value differs from the initial one)
				var ops []string
				if after.Size != before.Size {
					ops = append(ops, fmt.Sprintf("trunc:%x", after.Size))
				}
				if after.Mode != before.Mode {
					ops = append(ops, fmt.Sprintf("chmod:%x", uint32(after.Mode)))
				}
				if after.UID != before.UID || after.GID != before.GID {
					ops = append(ops, fmt.Sprintf("chown:%x:%x", after.UID, after.GID))
				}
				if after.Atime != before.Atime || after.Mtime != before.Mtime {
					// a truncate alone also moves mtime: only report times when the request carried them or they do not look like "now"
					if flags&8 != 0 || (after.Mtime < time.Now().Unix()-3600) {
						ops = append(ops, fmt.Sprintf("chtimes:%x:%x", after.Atime, after.Mtime))
					}
				}
				o := strings.Join(ops, ",")
				if o == "" {
					o = "-"
				}
				c.Obs(n, kvs("ops", o))
				ok, why := true, ""
				code, isStatus := uint32(99), false
				if err == nil && resp != nil {
					code, isStatus = resp.statusCode()
				}
				if !isStatus || code != 0 {
					ok, why = false, fmt.Sprintf("SETSTAT flags=%d answered %v (status=%v)", flags, code, isStatus)
				}
				exp := before
				if flags&1 != 0 {
					exp.Size = int64(size)
				}
				if flags&2 != 0 {
					exp.UID, exp.GID = uid, gid
				}
				if flags&4 != 0 {
					exp.Mode = sftp.VerifToFileMode(perm)
				}
				if flags&8 != 0 {
					exp.Atime, exp.Mtime = int64(atime), int64(mtime)
				} else if flags&1 != 0 {
					exp.Mtime = after.Mtime // truncate legitimately touches mtime
				}
				if flags&8 == 0 {
					exp.Atime = after.Atime
				}
				if after != exp {
					ok, why = false, fmt.Sprintf("flags=%d: after=%+v expected=%+v", flags, after, exp)
				}
				c.Oracle(n, ok, why)
				c.Stat(fmt.Sprintf("setstat_flags_%x", flags))
				os.Remove(target)
			}
		}
	}
	c17StatInfos(c)
	c17LongNameNames(c)
	c17FstatFollowsHandle(c)
}

// ---- kind statinfo: which owner and which attribute flags fileStatFromInfo reports, and which owner the long name shows ----

// entries as a handler may return them: a host os.FileInfo (Sys() is a *syscall.Stat_t) or a synthetic one (Sys() nil),
// wrapped or not in something that implements FileInfoUidGid and/or FileInfoExtendedData
type c17Plain struct{ os.FileInfo }
type c17Owned struct {
	os.FileInfo
	uid, gid uint32
}
type c17Ext struct {
	os.FileInfo
	ext []sftp.StatExtended
}
type c17OwnedExt struct {
	os.FileInfo
	uid, gid uint32
	ext      []sftp.StatExtended
}

func (o c17Owned) Uid() uint32                      { return o.uid }
func (o c17Owned) Gid() uint32                      { return o.gid }
func (e c17Ext) Extended() []sftp.StatExtended      { return e.ext }
func (o c17OwnedExt) Uid() uint32                   { return o.uid }
func (o c17OwnedExt) Gid() uint32                   { return o.gid }
func (o c17OwnedExt) Extended() []sftp.StatExtended { return o.ext }

func c17StatInfos(c *Ctx) {
	dir, err := os.MkdirTemp("", "vh-c17si-")
	if err != nil {
		return
	}
	defer os.RemoveAll(dir)
	name := filepath.Join(dir, "f")
	os.WriteFile(name, []byte("abc"), 0o640)
	host, err := os.Lstat(name)
	if err != nil {
		return
	}
	var suid, sgid uint32
	if st, ok := host.Sys().(*syscall.Stat_t); ok {
		suid, sgid = st.Uid, st.Gid
	}
	for _, hasStatT := range []bool{false, true} {
		var base os.FileInfo = fakeInfo{name: "f", size: 3, mode: 0o640, mt: time.Unix(1500000000, 0)}
		if hasStatT {
			base = host
		}
		for _, iface := range []bool{false, true} {
			for _, ids := range [][2]uint32{{suid + 1000, sgid + 2000}, {0, 0}, {4294967295, 65534}, {suid, sgid + 1}} {
				for _, next := range []int{-1, 0, 2} { // -1: no FileInfoExtendedData
					var ext []sftp.StatExtended
					for i := 0; i < next; i++ {
						ext = append(ext, sftp.StatExtended{ExtType: fmt.Sprintf("t%d", i), ExtData: "d"})
					}
					var fi os.FileInfo
					switch {
					case iface && next >= 0:
						fi = c17OwnedExt{base, ids[0], ids[1], ext}
					case iface:
						fi = c17Owned{base, ids[0], ids[1]}
					case next >= 0:
						fi = c17Ext{base, ext}
					default:
						fi = c17Plain{base}
					}
					if !hasStatT && !iface {
						fi = base // (the plain wrapper would hide nothing here; use the entry itself)
						if next >= 0 {
							fi = c17Ext{base, ext}
						}
					}
					flags, fs := sftp.VerifFileStatFromInfo(fi)
					ls := strings.Fields(sftp.VerifRunLs(fi))
					lsu, lsg := "?", "?"
					if len(ls) >= 4 {
						lsu, lsg = ls[2], ls[3]
					}
					tohex := func(dec string) string {
						v, err := strconv.ParseUint(dec, 10, 64)
						if err != nil {
							return "nan:" + dec
						}
						return fmt.Sprintf("%x", v)
					}
					ne := next
					if ne < 0 {
						ne = 0
					}
					n := c.Case("statinfo", kvb("statt", hasStatT), kvb("iface", iface), kvb("extiface", next >= 0), kvi("next", ne),
						kvx("suid", uint64(suid)), kvx("sgid", uint64(sgid)), kvx("iuid", uint64(ids[0])), kvx("igid", uint64(ids[1])))
					c.NT(n)
					c.Obs(n, kvx("flags", uint64(flags)), kvx("uid", uint64(fs.UID)), kvx("gid", uint64(fs.GID)), kvs("lsuid", tohex(lsu)), kvs("lsgid", tohex(lsg)))
					ok, why := true, ""
					if iface && (fs.UID != ids[0] || fs.GID != ids[1]) {
						ok, why = false, fmt.Sprintf("owner: the entry reports uid/gid %d/%d through FileInfoUidGid, the attribute block carries %d/%d", ids[0], ids[1], fs.UID, fs.GID)
					} else if tohex(lsu) != fmt.Sprintf("%x", fs.UID) || tohex(lsg) != fmt.Sprintf("%x", fs.GID) {
						ok, why = false, fmt.Sprintf("longname-owner: the long name shows %s/%s, the attribute block %d/%d", lsu, lsg, fs.UID, fs.GID)
					}
					c.Oracle(n, ok, why)
					c.Stat("statinfo_cases")
				}
			}
		}
	}
}

// c17HostOwner: the owner a host os.FileInfo carries in its *syscall.Stat_t.
func c17HostOwner(fi os.FileInfo) (uint32, uint32) {
	if st, ok := fi.Sys().(*syscall.Stat_t); ok {
		return st.Uid, st.Gid
	}
	return 0, 0
}

// ---- kind runls: the whole long name against Mode/LongName.v ----

// lsInfo is an entry with every column of the long name under the case's control (no Sys(): one link, numeric owner through
// FileInfoUidGid).
type lsInfo struct {
	name     string
	size     int64
	mode     os.FileMode
	mt       time.Time
	uid, gid uint32
}

func (f lsInfo) Name() string       { return f.name }
func (f lsInfo) Size() int64        { return f.size }
func (f lsInfo) Mode() os.FileMode  { return f.mode }
func (f lsInfo) ModTime() time.Time { return f.mt }
func (f lsInfo) IsDir() bool        { return f.mode.IsDir() }
func (f lsInfo) Sys() any           { return nil }
func (f lsInfo) Uid() uint32        { return f.uid }
func (f lsInfo) Gid() uint32        { return f.gid }

func kvz(neg, mag string, v int64) []string {
	if v < 0 {
		return []string{kvb(neg, true), kvx(mag, uint64(-v))}
	}
	return []string{kvb(neg, false), kvx(mag, uint64(v))}
}

// c17RunLs: runLs on entries whose modification time walks the calendar (every month end, leap days, the days around the
// six-months-ago threshold including the month ends AddDate normalises, the epoch, year 1, 2038, 2106, 9999), with sizes
// across int64, ids across uint32, names with blanks. Compared byte for byte with run_ls of the extracted model; the oracle
// reads the line back column by column (the property's own statement) with Go's own calendar as the reference.
func c17RunLs(c *Ctx) {
	saved := time.Local
	time.Local = time.UTC // runLs formats in the time's own location and takes "now" in time.Local: the model is in UTC
	defer func() { time.Local = saved }()
	now := time.Now().UTC()
	thr := now.AddDate(0, -6, 0).Unix()
	var mts []int64
	for _, d := range []int64{0, 1, -1, 59, -59, 3600, -3600, 86399, -86399, 86400, -86400, 2 * 86400, -2 * 86400, 30 * 86400, -30 * 86400} {
		mts = append(mts, thr+d, now.Unix()+d)
	}
	mts = append(mts, 0, 1, 59, 60, 3599, 86399, 86400, 951782400, 951868800 /* 2000-02-29 */, 4107542400 /* 2100-03-01 */, 4107456000, /* 2100-02-28 */
		2147483647, 2147483648, 4294967295, 4294967296, -1, -86400, -62135596800 /* 0001-01-01 */, 253402300799 /* 9999-12-31 */, 32503680000)
	for y := 1999; y <= 2001; y++ { // every month end and start around a leap year
		for m := time.January; m <= time.December; m++ {
			t := time.Date(y, m, 1, 0, 0, 0, 0, time.UTC)
			mts = append(mts, t.Unix(), t.Unix()-1)
		}
	}
	r := c.Rng
	for i := 0; i < 150; i++ {
		mts = append(mts, r.Int63n(1<<32), now.Unix()-r.Int63n(400*86400))
	}
	sizes := []int64{0, 1, 9, 10, 99999999, 100000000, 1<<63 - 1, -1, -5, -1 << 63, 12345}
	ids := []uint32{0, 1, 1000, 99999999, 4294967295, 12345678}
	links := uint64(1)
	names := []string{"x", "a b", " lead", "trail ", "", "two  blanks", "\xff\x00z", "日本"}
	modes := []os.FileMode{0o644, os.ModeDir | 0o755, os.ModeSymlink | 0o777, os.ModeSetuid | 0o4755&0o777, os.ModeSticky | os.ModeDir | 0o777, os.ModeNamedPipe | 0o600, 0}
	// zones at a fixed offset from UTC: the entry's time is formatted in its own location, "now" is taken in time.Local
	zones := []*time.Location{time.UTC, time.FixedZone("east", 5*3600+1800), time.FixedZone("west", -8*3600), time.FixedZone("far", 14*3600)}
	for i, mt := range mts {
		zone := zones[(i/3)%len(zones)]
		_, tzoff := time.Unix(mt, 0).In(zone).Zone()
		time.Local = zone
		fi := lsInfo{name: names[i%len(names)], size: sizes[i%len(sizes)], mode: modes[i%len(modes)], mt: time.Unix(mt, 0).In(zone),
			uid: ids[i%len(ids)], gid: ids[(i/2)%len(ids)]}
		n0 := time.Now().UTC().Unix()
		line := sftp.VerifRunLs(fi)
		n1 := time.Now().UTC().Unix() + 1
		w := sftp.VerifFromFileMode(fi.mode)
		args := []string{kvx("mode", uint64(w)), kvx("links", links), kvh("uid", []byte(strconv.FormatUint(uint64(fi.uid), 10))),
			kvh("gid", []byte(strconv.FormatUint(uint64(fi.gid), 10)))}
		args = append(args, kvz("sneg", "sabs", fi.size)...)
		args = append(args, kvz("mneg", "mabs", mt)...)
		args = append(args, kvz("nneg0", "now0", n0)...)
		args = append(args, kvz("nneg1", "now1", n1)...)
		args = append(args, kvz("tzneg", "tz", int64(tzoff))...)
		args = append(args, kvh("name", []byte(fi.name)))
		n := c.Case("runls", args...)
		c.NT(n)
		c.Obs(n, kvh("ls", []byte(line)))
		// oracle: the columns read back as the structured attributes (Go's calendar as the reference)
		ok, why := true, ""
		f := strings.Fields(line)
		t := fi.mt
		switch {
		case len(f) < 8:
			ok, why = false, fmt.Sprintf("longname-columns: %q has fewer than 8 columns", line)
		case f[1] != "1" || f[2] != strconv.FormatUint(uint64(fi.uid), 10) || f[3] != strconv.FormatUint(uint64(fi.gid), 10):
			ok, why = false, fmt.Sprintf("longname-columns: links/owner/group columns of %q are not 1/%d/%d", line, fi.uid, fi.gid)
		case f[4] != strconv.FormatInt(fi.size, 10):
			ok, why = false, fmt.Sprintf("longname-size: size column of %q is not %d", line, fi.size)
		case f[5] != t.Month().String()[:3] || f[6] != strconv.Itoa(t.Day()):
			ok, why = false, fmt.Sprintf("longname-date: date columns of %q are not those of %s", line, t.Format(time.RFC3339))
		case f[7] != fmt.Sprintf("%02d:%02d", t.Hour(), t.Minute()) && f[7] != fmt.Sprintf("%04d", t.Year()):
			ok, why = false, fmt.Sprintf("longname-date: the year-or-clock column of %q is neither the clock nor the year of %s", line, t.Format(time.RFC3339))
		case strings.Contains(f[7], ":") && (mt < thr-86400*4):
			ok, why = false, fmt.Sprintf("longname-date: %q shows the clock for a time more than six months old (%s)", line, t.Format(time.RFC3339))
		case !strings.Contains(f[7], ":") && (mt > thr+86400*4):
			ok, why = false, fmt.Sprintf("longname-date: %q shows the year for a time less than six months old (%s)", line, t.Format(time.RFC3339))
		case !strings.HasSuffix(line, " "+fi.name):
			ok, why = false, fmt.Sprintf("longname-name: %q does not end in the name %q", line, fi.name)
		}
		if t.Year() < 0 || t.Year() > 9999 {
			ok, why = true, "" // Go writes such years with a sign / more digits: outside what the property speaks of
		}
		c.Oracle(n, ok, why)
		c.Stat("runls_cases")
		if strings.Contains(line, ":") && len(f) >= 8 && strings.Contains(f[7], ":") {
			c.Stat("runls_clock_column")
		} else {
			c.Stat("runls_year_column")
		}
	}
}
