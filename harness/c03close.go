package main

import (
	"encoding/binary"
	"fmt"
	"io"
	"os"
	"strings"
	"sync"
	"time"

	"github.com/pkg/sftp"
)

// c03 kind wireclose, tied to coq/Conn/WireMutex.v (cstep / close_finds_whole_packets): the peer ends its reply direction (a
// legal half close) exactly while a caller sits between the header Write and the payload Write of a two-part request. The
// client's receive loop then shuts the session down, which includes closing the writer - but a packet whose header is on the
// wire is completed first: the Write calls made before the Close read as whole packets (the model's `scan`), and the peer,
// still reading, never sees a packet whose announced length is not followed by that many bytes.
type c03GateRec struct {
	w       io.WriteCloser
	mu      sync.Mutex
	toks    []string
	open    bool
	openID  uint32
	remain  int
	armed   bool
	hdr     chan struct{}
	release chan struct{}
	closed  bool
}

func (r *c03GateRec) Write(b []byte) (int, error) {
	r.mu.Lock()
	if r.closed {
		r.mu.Unlock()
		return 0, io.ErrClosedPipe
	}
	gate := false
	switch {
	case r.open && len(b) == r.remain:
		r.toks = append(r.toks, fmt.Sprintf("p%d", r.openID))
		r.open = false
	case len(b) >= 5 && int(binary.BigEndian.Uint32(b[:4])) >= len(b)-4:
		l := int(binary.BigEndian.Uint32(b[:4]))
		var id uint32
		if b[4] != fxpInit && len(b) >= 9 {
			id = binary.BigEndian.Uint32(b[5:9])
		}
		if l == len(b)-4 {
			r.toks = append(r.toks, fmt.Sprintf("o%d", id))
		} else {
			r.toks = append(r.toks, fmt.Sprintf("h%d", id))
			if !r.open {
				r.open, r.openID, r.remain = true, id, l-(len(b)-4)
				if r.armed {
					r.armed, gate = false, true
				}
			}
		}
	default:
		r.toks = append(r.toks, "x")
	}
	r.mu.Unlock()
	n, err := r.w.Write(b)
	if gate {
		close(r.hdr)
		select {
		case <-r.release:
		case <-time.After(3 * time.Second):
		}
	}
	return n, err
}

func (r *c03GateRec) Close() error {
	r.mu.Lock()
	if !r.closed {
		r.closed = true
		r.toks = append(r.toks, "c")
	}
	r.mu.Unlock()
	return r.w.Close()
}

func c03WireClose(c *Ctx) {
	kinds := []string{"writeat", "chmod", "fchmod", "write"}
	reps := 2
	if c.Thorough() {
		reps = 20
	}
	for rep := 0; rep < reps; rep++ {
		for _, kind := range kinds {
			pr1, pw1 := io.Pipe() // client -> peer
			pr2, pw2 := io.Pipe() // peer -> client
			rec := &c03GateRec{w: pw1, hdr: make(chan struct{}), release: make(chan struct{})}
			torn := make(chan string, 1)
			go func() { // the peer: answers everything, keeps reading to the end, notes how the request stream ended
				var hdr [4]byte
				for {
					if _, err := io.ReadFull(pr1, hdr[:]); err != nil {
						if err == io.ErrUnexpectedEOF {
							torn <- "the request stream ended inside a length prefix"
						} else {
							torn <- ""
						}
						return
					}
					l := binary.BigEndian.Uint32(hdr[:])
					body := make([]byte, l)
					if n, err := io.ReadFull(pr1, body); err != nil {
						typ := byte(0)
						if n > 0 {
							typ = body[0]
						}
						torn <- fmt.Sprintf("torn packet: a packet of type %d announced %d bytes, %d followed before the writer was closed", typ, l, n)
						return
					}
					var reply []byte
					switch body[0] {
					case fxpInit:
						reply = append([]byte{0, 0, 0, 5, fxpVersion}, 0, 0, 0, 3)
					case fxpOpen:
						reply = frame(pkt(fxpHandle, binary.BigEndian.Uint32(body[1:5])).str("h").b)
					default:
						reply = frame(pkt(fxpStatus, binary.BigEndian.Uint32(body[1:5])).u32(0).str("").str("").b)
					}
					pw2.Write(reply) // fails harmlessly once the reply direction is ended
				}
			}()
			cn := c.Case("wireclose", kvs("op", kind), kvi("rep", rep))
			c.NT(cn)
			c.Stat("wireclose_cases")
			cl, err := sftp.NewClientPipe(pr2, rec)
			if err != nil {
				c.Oracle(cn, false, "harness: session setup failed: "+err.Error())
				pw1.Close()
				pw2.Close()
				continue
			}
			f, err := cl.OpenFile("/f", os.O_RDWR)
			if err != nil {
				c.Oracle(cn, false, "harness: open failed: "+err.Error())
				cl.Close()
				pw2.Close()
				continue
			}
			rec.mu.Lock()
			rec.armed = true
			rec.mu.Unlock()
			opDone := make(chan struct{})
			go func() {
				defer close(opDone)
				switch kind {
				case "writeat":
					f.WriteAt([]byte(strings.Repeat("w", 64)), 8)
				case "write":
					f.Write([]byte(strings.Repeat("v", 33)))
				case "chmod":
					cl.Chmod("/f", 0o640)
				case "fchmod":
					f.Chmod(0o600)
				}
			}()
			why := ""
			select {
			case <-rec.hdr:
			case <-time.After(3 * time.Second):
				why = "harness: the operation wrote no two-part packet"
			}
			if why == "" {
				pw2.Close() // the peer ends its reply direction; it goes on reading
				time.Sleep(60 * time.Millisecond)
				close(rec.release)
				select {
				case <-opDone:
				case <-time.After(5 * time.Second):
					why = "hang: the call did not return within 5 s of the reply direction ending"
				}
			} else {
				close(rec.release)
			}
			// the writer gets closed by the client's own shutdown; give it a moment, then make sure everything ends
			deadline := time.Now().Add(3 * time.Second)
			for time.Now().Before(deadline) {
				rec.mu.Lock()
				cl := rec.closed
				rec.mu.Unlock()
				if cl {
					break
				}
				time.Sleep(2 * time.Millisecond)
			}
			rec.mu.Lock()
			wasClosed := rec.closed
			toks := append([]string(nil), rec.toks...)
			rec.mu.Unlock()
			cl.Close()
			pw1.Close()
			pw2.Close()
			peerSaw := ""
			select {
			case peerSaw = <-torn:
			case <-time.After(3 * time.Second):
				peerSaw = "harness: the peer did not finish"
			}
			before := toks
			for i, t := range toks {
				if t == "c" {
					before = toks[:i]
					break
				}
			}
			if why == "" && !wasClosed {
				why = "writer-not-closed: the reply direction ended and the client did not close its writer within 3 s"
			}
			if why == "" && peerSaw != "" {
				why = peerSaw
			}
			c.Oracle(cn, why == "", why)
			if len(before) > 0 {
				wn := c.Case("wirescan", kvi("g", 1), kvi("w", 0), kvi("hist", rep), kvs("class", "close-"+kind), kvi("writes", len(before)), "wire="+strings.Join(before, ","))
				c.Obs(wn, "scan=whole")
				c.Oracle(wn, true, "")
				c.NT(wn)
			}
		}
	}
}

// c03 kind xfer (refused chunks answered out of order): "every client operation returns the result the server produced for that very
// request, no matter in which order the server answers". One WriteAt / Write of seven chunks under UseConcurrentWrites, two or three
// chunks refused with different status codes, the scripted peer answering the outstanding requests in permuted order: the call's
// count and error are those of the lowest refused chunk - the answer to ITS request -, whichever refusal arrived first
// (model: the extracted transfer functions; oracle: the intact-prefix oracle).
func c03RefusedOutOfOrder(c *Ctx) {
	reps := 30
	if c.Thorough() {
		reps = 600
	}
	codes := []uint32{4, 2, 3, 9}
	for i := 0; i < reps; i++ {
		p := 2 + i%3
		x := &xcase{api: []string{"writeat", "write"}[i%2], p: p, conc: 3 + i%2, cw: true, cr: true, flen: 2 * p, n: 7 * p, off: []int{0, p, 1}[i%3],
			maxtx: 32768, src: "opaque", backend: "peerperm", regular: true}
		a := c.Rng.Intn(5)
		b := a + 1 + c.Rng.Intn(6-a)
		x.wfail = map[uint64]uint32{uint64(x.off + a*p): codes[i%4], uint64(x.off + b*p): codes[(i+1)%4]}
		r, n := emitX(c, x)
		if r == nil {
			continue
		}
		c.NT(n)
		c.Stat("refused_chunks_answered_out_of_order")
		ok, why := oraclePartial(x, r)
		c.Oracle(n, ok, why)
	}
}
