package main

import (
	"encoding/binary"
	"fmt"
	"os"
	"path/filepath"
)

// c02 kind maxframe: "every well-formed request" includes the largest one: a WRITE whose frame has exactly the maximum length a
// server accepts (262144), one byte less, and half of it, each followed by FSTAT and CLOSE on the same handle; both servers,
// allocator off and on. Every request gets exactly one response with its id and a legal type, in order; the WRITEs succeed.
func c02MaxFrames(c *Ctx) {
	const maxMsg = 262144
	dir, err := os.MkdirTemp("", "vh-c02max-")
	if err != nil {
		return
	}
	defer os.RemoveAll(dir)
	for _, srv := range []string{"os", "rs"} {
		for _, alloc := range []bool{false, true} {
			for _, flen := range []int{maxMsg, maxMsg - 1, maxMsg / 2} {
				cn := c.Case("maxframe", kvs("srv", srv), kvb("alloc", alloc), kvi("framelen", flen))
				c.NT(cn)
				c.Stat("maxframe_cases")
				opt := pairOpt{alloc: alloc, maxTx: 262144} // the largest payload a server can be configured for: READ replies up to the frame limit too
				name := "/big"
				if srv == "rs" {
					fs := newMemFS()
					opt.reqServer, opt.handlers = true, fs.handlers()
				} else {
					name = filepath.Join(dir, "big")
					os.Remove(name)
				}
				rs, err := newRawSession(opt)
				if err != nil {
					c.Oracle(cn, false, "harness: "+err.Error())
					continue
				}
				why := ""
				step := func(what string, fr []byte, id uint32, legal ...byte) *rawResp {
					if why != "" {
						return nil
					}
					resp, err := rs.do(fr)
					if err != nil {
						why = fmt.Sprintf("missing-responses: the %s request (a frame of %d bytes) got no response: %v", what, len(fr)-4, err)
						return nil
					}
					ok := false
					for _, t := range legal {
						ok = ok || resp.Typ == t
					}
					switch {
					case resp.ID != id:
						why = fmt.Sprintf("wrong-id: the response to %s carries id %d, the request had %d", what, resp.ID, id)
					case !ok:
						why = fmt.Sprintf("illegal-type: %s answered %s", what, pgTypeName(resp.Typ))
					}
					return resp
				}
				h := ""
				if resp := step("OPEN", rawOpen(11, name, 0x1b, 0, nil), 11, fxpHandle, fxpStatus); resp != nil && why == "" {
					var ok bool
					if h, ok = resp.handle(); !ok {
						why = "harness: the OPEN for writing was refused"
					}
				}
				if why == "" {
					n := flen - (1 + 4 + 4 + len(h) + 8 + 4)
					fr := rawWrite(12, h, 0, make([]byte, n))
					if int(binary.BigEndian.Uint32(fr)) != flen {
						why = fmt.Sprintf("harness: frame length %d, want %d", binary.BigEndian.Uint32(fr), flen)
					}
					if resp := step(fmt.Sprintf("WRITE of %d bytes", n), fr, 12, fxpStatus); resp != nil && why == "" {
						if code, _ := resp.statusCode(); code != 0 {
							why = fmt.Sprintf("write-refused: a well-formed WRITE whose frame is %d bytes long (limit %d) was answered with status %d", flen, maxMsg, code)
						}
					}
					// ... and the largest READ replies: the file is brought to 300000 bytes, then READs whose DATA replies end within the last
					// bytes of the largest legal frame (262144 - 13 header bytes = 262131 payload bytes) and just beyond what fits
					step("WRITE (extend)", rawWrite(15, h, 200000, make([]byte, 100000)), 15, fxpStatus)
					for k, ln := range []uint32{262131, 262130, 262132, 262135, 262144, 131072} {
						id := uint32(20 + k)
						if resp := step(fmt.Sprintf("READ of %d bytes", ln), rawRead(id, h, 0, ln), id, fxpData, fxpStatus); resp != nil && why == "" {
							if d, isData := resp.data(); !isData {
								why = fmt.Sprintf("read-refused: READ of %d bytes at offset 0 of a 300000 byte file answered %s", ln, pgTypeName(resp.Typ))
							} else if len(d) == 0 || len(d) > int(ln) {
								why = fmt.Sprintf("read-size: READ of %d bytes answered with %d bytes", ln, len(d))
							}
						}
					}
					step("FSTAT", rawHandleOp(fxpFstat, 13, h), 13, fxpAttrs, fxpStatus)
					step("CLOSE", rawHandleOp(fxpClose, 14, h), 14, fxpStatus)
				}
				rs.Close()
				c.Oracle(cn, why == "", why)
			}
		}
	}
}
