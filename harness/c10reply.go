package main

import (
	"encoding/binary"
	"errors"
	"fmt"
	"io"
	"os"
	"sync"

	"github.com/pkg/sftp"
)

// c10 "replymap": the return direction of the request server, tied to coq/Srv/Reply.v. Handlers that return a scripted
// (n, err) pair from ReadAt / WriteAt / ListAt; the reply the client gets (DATA with n bytes, NAME with n entries, ATTRS, a
// one-entry NAME, or STATUS with its code) is compared with the model's read_reply / write_reply / list_reply / stat_reply /
// readlink_reply. err: nil, io.EOF itself, or an error with a known status code (not-exist 2, permission 3, a plain failure
// 4 - also as an error wrapping io.ErrUnexpectedEOF -, op-unsupported 8, and io.EOF wrapped, which statusFromError reports as 1).
type c10Script struct {
	n   int
	err error
}

type c10ScriptFile struct{ s *c10Script }

func (f c10ScriptFile) ReadAt(b []byte, off int64) (int, error) {
	n := f.s.n
	if n > len(b) {
		n = len(b)
	}
	for i := 0; i < n; i++ {
		b[i] = byte('a' + i%26)
	}
	return n, f.s.err
}
func (f c10ScriptFile) WriteAt(b []byte, off int64) (int, error) { return len(b), f.s.err }

type c10ScriptLister struct{ s *c10Script }

func (l c10ScriptLister) ListAt(out []os.FileInfo, off int64) (int, error) {
	if off > 0 {
		return 0, io.EOF // the scripted result is the first batch; afterwards the listing is over
	}
	n := l.s.n
	if n > len(out) {
		n = len(out)
	}
	for i := 0; i < n; i++ {
		out[i] = memInfo{fmt.Sprintf("e%d", i), int64(i)}
	}
	return n, l.s.err
}

type c10ScriptHandlers struct {
	s        *c10Script
	openFile bool
}

func (h c10ScriptHandlers) Fileread(r *sftp.Request) (io.ReaderAt, error) {
	return c10ScriptFile{h.s}, nil
}
func (h c10ScriptHandlers) Filewrite(r *sftp.Request) (io.WriterAt, error) {
	return c10ScriptFile{h.s}, nil
}
func (h c10ScriptHandlers) Filecmd(r *sftp.Request) error { return nil }
func (h c10ScriptHandlers) Filelist(r *sftp.Request) (sftp.ListerAt, error) {
	return c10ScriptLister{h.s}, nil
}

type c10ScriptHandlersOF struct{ c10ScriptHandlers }

func (h c10ScriptHandlersOF) OpenFile(r *sftp.Request) (sftp.WriterAtReaderAt, error) {
	return c10ScriptFile{h.s}, nil
}

func c10ReplyMaps(c *Ctx) {
	type errCase struct {
		name string
		err  error
	}
	errs := []errCase{{"nil", nil}, {"eof", io.EOF}, {"code:2", os.ErrNotExist}, {"code:3", os.ErrPermission}, {"code:4", errors.New("backend failure")},
		{"code:4", fmt.Errorf("cut short: %w", io.ErrUnexpectedEOF)}, {"code:8", sftp.ErrSSHFxOpUnsupported}, {"code:1", fmt.Errorf("wrapped: %w", io.EOF)},
		{"code:2", &os.PathError{Op: "read", Path: "/x", Err: os.ErrNotExist}}}
	for _, op := range []string{"read", "readrw", "write", "list", "stat", "lstat", "readlink"} {
		ns := []int{0, 1, 5, 10}
		if op == "stat" || op == "lstat" || op == "readlink" {
			ns = []int{0, 1}
		}
		if op == "write" {
			ns = []int{3}
		}
		for _, n := range ns {
			for ei, ec := range errs {
				sc := &c10Script{n: n, err: ec.err}
				var h sftp.Handlers
				base := c10ScriptHandlers{s: sc}
				h = sftp.Handlers{FileGet: base, FilePut: base, FileCmd: base, FileList: base}
				if op == "readrw" {
					h.FilePut = c10ScriptHandlersOF{base}
				}
				rs, err := newRawSession(pairOpt{reqServer: true, handlers: h, alloc: (n+ei)%2 == 1})
				if err != nil {
					c.Diag("replymap session: %v", err)
					return
				}
				var resp *rawResp
				switch op {
				case "read", "readrw", "write":
					pf := map[string]uint32{"read": 1, "readrw": 3, "write": 0x1a}[op]
					r, e := rs.do(rawOpen(1, "/f", pf, 0, nil))
					hd := ""
					if e == nil {
						hd, _ = r.handle()
					}
					if op == "write" {
						resp, _ = rs.do(rawWrite(2, hd, 0, []byte("abc")))
					} else {
						resp, _ = rs.do(rawRead(2, hd, 0, 10))
					}
				case "list":
					r, e := rs.do(rawPathOp(fxpOpendir, 1, "/d"))
					hd := ""
					if e == nil {
						hd, _ = r.handle()
					}
					resp, _ = rs.do(rawHandleOp(fxpReaddir, 2, hd))
				case "stat":
					resp, _ = rs.do(rawPathOp(fxpStat, 2, "/f"))
				case "lstat":
					resp, _ = rs.do(rawPathOp(fxpLstat, 2, "/f"))
				case "readlink":
					resp, _ = rs.do(rawPathOp(fxpReadlink, 2, "/f"))
				}
				rs.Close()
				cn := c.Case("replymap", kvs("op", op), kvs("n", fmt.Sprint(n)), kvs("err", ec.name), kvi("variant", ei))
				c.NT(cn)
				c.Stat("replymap_" + op)
				got := "none"
				if resp != nil {
					switch resp.Typ {
					case fxpData:
						d, _ := resp.data()
						got = fmt.Sprintf("data:%d", len(d))
					case fxpName:
						cnt := -1
						if len(resp.Body) >= 4 {
							cnt = int(binary.BigEndian.Uint32(resp.Body))
						}
						got = fmt.Sprintf("names:%d", cnt)
						if (op == "readlink") && cnt == 1 {
							got = "name1"
						}
					case fxpAttrs:
						got = "attrs"
					case fxpStatus:
						code, _ := resp.statusCode()
						got = fmt.Sprintf("status:%d", code)
					default:
						got = fmt.Sprintf("type:%d", resp.Typ)
					}
				}
				c.Obs(cn, "reply="+got)
				// the statement itself, independent of the model: data, listings and attributes as given; a failure as a failure
				ok, why := true, ""
				plain := ec.err == nil || ec.err == io.EOF
				switch {
				case resp == nil:
					ok, why = false, "no reply"
				case (op == "read" || op == "readrw") && plain && n > 0 && got != fmt.Sprintf("data:%d", n):
					ok, why = false, fmt.Sprintf("data-as-given: the handler read %d bytes (err=%v); the client got %s", n, ec.err, got)
				case op == "list" && plain && n > 0 && got != fmt.Sprintf("names:%d", n):
					ok, why = false, fmt.Sprintf("listing-as-given: the lister returned %d entries (err=%v); the client got %s", n, ec.err, got)
				case (op == "stat" || op == "lstat") && plain && n == 1 && got != "attrs":
					ok, why = false, fmt.Sprintf("attributes-as-given: the lister returned the entry (err=%v); the client got %s", ec.err, got)
				case !plain && ec.name != "code:1" && got != "status:"+ec.name[5:]:
					ok, why = false, fmt.Sprintf("error-as-given: the handler failed with %v; the client got %s", ec.err, got)
				}
				c.Oracle(cn, ok, why)
			}
		}
	}
}

// kind listpages: "listings as given" over a whole directory handle. The handler's lister holds E entries and hands them out
// in pages of at most P (0 < n < len(buffer) with a nil error is a legal answer: a paginated backend), the end reported with the
// last page or on the call after it. The client's ReadDir must return exactly the E names in order, and the lister must have been
// asked for exactly the offsets its own answers add up to (each call continues where the entries delivered so far end).
type c10PageLister struct {
	mu      sync.Mutex
	ents    []os.FileInfo
	page    int
	eofWith bool
	asked   []int64
}

func (l *c10PageLister) ListAt(out []os.FileInfo, off int64) (int, error) {
	l.mu.Lock()
	defer l.mu.Unlock()
	l.asked = append(l.asked, off)
	if off >= int64(len(l.ents)) {
		return 0, io.EOF
	}
	n := len(out)
	if n > l.page {
		n = l.page
	}
	n = copy(out[:n], l.ents[off:])
	if l.eofWith && int(off)+n == len(l.ents) {
		return n, io.EOF
	}
	return n, nil
}

type c10PageHandlers struct {
	nullHandlers
	l *c10PageLister
}

func (h c10PageHandlers) Filelist(r *sftp.Request) (sftp.ListerAt, error) {
	if r.Method == "List" {
		return h.l, nil
	}
	return oneLister{memInfo{"d", 0}}, nil
}

func c10ListPages(c *Ctx) {
	for _, E := range []int{1, 60, 101, 250} {
		for _, P := range []int{1, 25, 99, 100, 1000} {
			if P == 1 && E > 60 {
				continue
			}
			for _, eofWith := range []bool{false, true} {
				l := &c10PageLister{page: P, eofWith: eofWith}
				for i := 0; i < E; i++ {
					l.ents = append(l.ents, memInfo{fmt.Sprintf("e%04d", i), int64(i)})
				}
				h := c10PageHandlers{l: l}
				p, err := newPair(pairOpt{reqServer: true, handlers: sftp.Handlers{FileGet: h, FilePut: h, FileCmd: h, FileList: h}})
				if err != nil {
					c.Diag("pair: %v", err)
					continue
				}
				got, lerr := p.Client.ReadDir("/d")
				p.Close()
				cn := c.Case("listpages", kvi("entries", E), kvi("page", P), kvb("eofwith", eofWith))
				if E > P {
					c.NT(cn)
				}
				c.Stat("listpages_cases")
				why := ""
				switch {
				case lerr != nil:
					why = "listing-as-given: ReadDir failed: " + lerr.Error()
				case len(got) != E:
					why = fmt.Sprintf("listing-as-given: the lister holds %d entries (pages of %d); the client got %d", E, P, len(got))
				default:
					for i, fi := range got {
						if fi.Name() != fmt.Sprintf("e%04d", i) {
							why = fmt.Sprintf("listing-as-given: entry %d is %q", i, fi.Name())
							break
						}
					}
				}
				if why == "" {
					l.mu.Lock()
					sum := int64(0)
					for k, off := range l.asked {
						if off != sum {
							why = fmt.Sprintf("listing-offsets: call %d of ListAt asked for offset %d, the entries delivered so far end at %d (asked: %v)", k, off, sum, l.asked)
							break
						}
						n := int64(P)
						if n > sftp.MaxFilelist {
							n = sftp.MaxFilelist
						}
						if sum+n > int64(E) {
							n = int64(E) - sum
						}
						sum += n
					}
					l.mu.Unlock()
				}
				l.mu.Lock()
				c.Obs(cn, kvi("n", len(got)), kvi("calls", len(l.asked)), kvb("ok", lerr == nil))
				l.mu.Unlock()
				c.Oracle(cn, why == "", why)
			}
		}
	}
}
