package main

// C14 — close waits for the reads and writes sent before it.
// Pipelines (READ|WRITE)^k and CLOSE on 1..4 handles, interleaved, as raw frames without waiting for replies.
// Request server: every ReadAt/WriteAt blocks on a gate; gates are opened (in seeded orders) only after the next
// unanswered CLOSE frame has been written (one gate at a time while the pipeline is too full for the CLOSE frame to be
// taken); each backend object counts in-flight calls and samples the count inside Close().
// os-backed server: no gates, 100-250 KB transfers keep the workers busy when CLOSE arrives; verified through
// statuses, DATA bytes and the final file contents. Oracle only (no obs lines).

import (
	"bytes"
	"fmt"
	"math/rand"
	"os"
	"sync"
	"sync/atomic"
	"time"
)

func init() { register("c14", runC14) }

type c14H struct {
	mode   string // r | w | rw
	wire   string
	fileNo int
	size   int    // r: file size; rw: size of the pre-populated part
	model  []byte // w, rw: expected final content
	nRW    int
}

type c14Prog struct {
	reqs []*pgReq
	hs   []*c14H
	want map[int][]byte // READ request index -> expected DATA payload
	hOf  map[int]int    // request index -> handle number
	// putfail: WRITE requests (by request index) that the backend refuses: the offset lies beyond what the store accepts
	failing map[int]bool
	failReq map[*pgReq]bool
}

// c14OnlyReadHandles: the programs for a ReadOnly() server open every handle for reading.
var c14OnlyReadHandles bool

const c14Pre = 65536 // rw files: [0,c14Pre) pre-populated and only read; writes land at c14Pre and above

// c14Build: INIT, the OPENs, then the interleaved (READ|WRITE)^k CLOSE sequences.
func c14Build(rng *rand.Rand, nh, kmax int, big, openPipelined bool, maxTx uint32) *c14Prog {
	return c14BuildF(rng, nh, kmax, big, openPipelined, maxTx, false)
}

// putFail: read and write-only handles only (the handlers have no OpenFile); on every write handle with at least two
// transfers one or two of the WRITEs carry an offset the backend refuses.
func c14BuildF(rng *rand.Rand, nh, kmax int, big, openPipelined bool, maxTx uint32, putFail bool) *c14Prog {
	p := &c14Prog{want: map[int][]byte{}, hOf: map[int]int{}, failing: map[int]bool{}, failReq: map[*pgReq]bool{}}
	ids := map[uint32]bool{}
	id := func() uint32 {
		for {
			v := rng.Uint32()
			if !ids[v] {
				ids[v] = true
				return v
			}
		}
	}
	p.reqs = append(p.reqs, &pgReq{op: "INIT", typ: fxpInit, frame: rawInit(), cls: pgClsCmdFree, slot: -1})
	for i := 0; i < nh; i++ {
		h := &c14H{mode: []string{"r", "w", "rw", "w", "r"}[rng.Intn(5)]}
		if putFail {
			h.mode = []string{"w", "w", "r"}[rng.Intn(3)]
		}
		if c14OnlyReadHandles {
			h.mode = "r"
		}
		pflags := uint32(1)
		switch h.mode {
		case "r":
			h.fileNo = 2 + rng.Intn(4)
			h.size = pgRoSizes[h.fileNo]
			h.wire = fmt.Sprintf("ro/f%d", h.fileNo)
		case "w":
			h.fileNo, h.wire, pflags = 100+i, fmt.Sprintf("w/n%d", i), 0x1a
		case "rw":
			h.fileNo, h.wire, pflags, h.size = 200+i, fmt.Sprintf("w/p%d", i), 3, c14Pre
			h.model = pgPatBytes(h.fileNo, 0, c14Pre)
		}
		p.hs = append(p.hs, h)
		rid := id()
		p.reqs = append(p.reqs, &pgReq{op: "OPEN(" + h.mode + ")", typ: fxpOpen, id: rid, frame: rawOpen(rid, h.wire, pflags, 0, nil), cls: pgClsCmdFree, slot: i})
		p.hOf[len(p.reqs)-1] = i
	}
	txMax := uint32(32768)
	if maxTx > txMax {
		txMax = maxTx
	}
	// per-handle queues
	queues := make([][]*pgReq, nh)
	for i, h := range p.hs {
		k := 1 + rng.Intn(kmax)
		if putFail && k < 2 {
			k = 2
		}
		h.nRW = k
		hs := fmt.Sprint(i + 1)
		failAt := map[int]bool{}
		if putFail && h.mode == "w" {
			failAt[rng.Intn(k)] = true
			if k > 3 && rng.Intn(2) == 0 {
				failAt[rng.Intn(k)] = true
			}
		}
		for j := 0; j < k; j++ {
			read := h.mode == "r" || (h.mode == "rw" && rng.Intn(2) == 0)
			rq := &pgReq{id: id(), cls: pgClsRWGated, slot: i}
			if read {
				ln := uint32(1 + rng.Intn(200))
				if big {
					ln = []uint32{32768, 65536, 262144}[rng.Intn(3)]
				}
				off := uint64((j*4099 + rng.Intn(4000)) % (h.size - 1))
				if h.mode == "rw" { // stay inside the part no write touches
					if ln > 32768 {
						ln = 32768
					}
					off = uint64(rng.Intn(c14Pre - int(ln) + 1))
				}
				n := ln
				if n > txMax {
					n = txMax
				}
				end := int(off) + int(n)
				if end > h.size {
					end = h.size
				}
				rq.op, rq.typ, rq.off, rq.ln = "READ", fxpRead, off, ln
				rq.frame = rawRead(rq.id, hs, off, ln)
				rq.gkey = fmt.Sprintf("read:/%s@%d+%d", h.wire, off, n)
				rq.data = pgPatBytes(h.fileNo, int64(off), end-int(off)) // expected payload
			} else {
				n := 1 + rng.Intn(200)
				stride := 256
				if big {
					n = 100000 + rng.Intn(150000)
					stride = 50000
				}
				off := j*stride + rng.Intn(stride/2)
				if h.mode == "rw" {
					off += c14Pre
				}
				if failAt[j] {
					off += pgMaxFile // the store refuses it (inside WriteAt, after the gate)
				}
				rq.op, rq.typ, rq.off = "WRITE", fxpWrite, uint64(off)
				rq.data = pgPatBytes(h.fileNo, int64(off), n)
				rq.frame = rawWrite(rq.id, hs, uint64(off), rq.data)
				rq.gkey = fmt.Sprintf("write:/%s@%d+%d", h.wire, off, n)
				if failAt[j] {
					rq.op = "WRITE(refused)"
					p.failReq[rq] = true
				} else if need := off + n; need > len(h.model) {
					h.model = append(h.model, make([]byte, need-len(h.model))...)
				}
				if !failAt[j] {
					copy(h.model[off:], rq.data)
				}
			}
			queues[i] = append(queues[i], rq)
		}
		if rng.Intn(3) == 0 {
			// a request that is neither READ nor WRITE between the last transfer and the CLOSE (it takes the command worker's
			// path; the CLOSE behind it must still wait for the transfers before it)
			rid := id()
			queues[i] = append(queues[i], &pgReq{op: "REALPATH", typ: fxpRealpath, id: rid, frame: rawPathOp(fxpRealpath, rid, "/"), cls: pgClsCmdFree, slot: -1})
		}
		cid := id()
		queues[i] = append(queues[i], &pgReq{op: "CLOSE", typ: fxpClose, id: cid, frame: rawHandleOp(fxpClose, cid, hs), cls: pgClsClose, slot: i})
	}
	first := true
	for {
		var live []int
		for i, q := range queues {
			if len(q) > 0 {
				live = append(live, i)
			}
		}
		if len(live) == 0 {
			break
		}
		i := live[rng.Intn(len(live))]
		rq := queues[i][0]
		queues[i] = queues[i][1:]
		if first && !openPipelined {
			rq.sync = true // the handles are known before they are used, as for any client
		}
		first = false
		p.reqs = append(p.reqs, rq)
		p.hOf[len(p.reqs)-1] = i
		if p.failReq[rq] {
			p.failing[len(p.reqs)-1] = true
		}
		if rq.typ == fxpRead {
			p.want[len(p.reqs)-1] = rq.data
		}
	}
	return p
}

func c14PrepStore(st *pgStore, p *c14Prog) {
	pgPopulateStore(st)
	for _, h := range p.hs {
		if h.mode == "rw" {
			st.putFile("/"+h.wire, pgPatBytes(h.fileNo, 0, c14Pre))
		}
	}
}

// c14Check: statuses, payloads (the part of the property visible on the wire).
// tolerate: a READ/WRITE answered STATUS 4 is counted, not failed (openpipe: the request overtook the OPEN whose handle it guessed).
func c14Check(p *c14Prog, resps []*rawResp, tolerate bool, overtaken *int) (bool, string) {
	if ok, why := pgCheckStream(p.reqs, resps); !ok {
		return false, why
	}
	for i, rq := range p.reqs {
		rs := resps[i]
		h := p.hOf[i] + 1
		switch rq.typ {
		case fxpOpen:
			if got, ok := rs.handle(); !ok || got != fmt.Sprint(h) {
				return false, fmt.Sprintf("harness-handle-prediction: OPEN %d answered %s %q", h, pgTypeName(rs.Typ), got)
			}
		case fxpRead:
			d, ok := rs.data()
			if code, _ := rs.statusCode(); !ok && tolerate && code == 4 {
				*overtaken++
				continue
			}
			if !ok {
				code, _ := rs.statusCode()
				return false, fmt.Sprintf("io-before-close-failed: READ on handle %d (sent before its CLOSE) answered STATUS %d", h, code)
			}
			if !bytes.Equal(d, p.want[i]) {
				return false, fmt.Sprintf("read-content: READ on handle %d returned %d bytes that differ from the file (expected %d)", h, len(d), len(p.want[i]))
			}
		case fxpWrite:
			if code, ok := rs.statusCode(); ok && tolerate && code == 4 {
				*overtaken++
				continue
			}
			if p.failing[i] {
				if code, ok := rs.statusCode(); !ok || code == 0 {
					return false, fmt.Sprintf("refused-write-acknowledged: the backend refused a WRITE on handle %d, the client was told STATUS %d", h, code)
				}
				continue
			}
			if code, ok := rs.statusCode(); !ok || code != 0 {
				return false, fmt.Sprintf("io-before-close-failed: WRITE on handle %d (sent before its CLOSE) answered STATUS %d", h, code)
			}
		case fxpClose:
			if code, ok := rs.statusCode(); !ok || code != 0 {
				return false, fmt.Sprintf("close-failed: CLOSE of handle %d answered STATUS %d", h, code)
			}
		}
	}
	return true, ""
}

func c14Content(p *c14Prog, get func(wire string) ([]byte, bool)) (bool, string) {
	for i, h := range p.hs {
		if h.mode == "r" {
			continue
		}
		got, ok := get(h.wire)
		if !ok || !bytes.Equal(got, h.model) {
			return false, fmt.Sprintf("final-content: file of handle %d (%s) is not the writes applied: %d bytes, expected %d", i+1, h.mode, len(got), len(h.model))
		}
	}
	return true, ""
}

func runC14(c *Ctx) {
	c.Rule("pipelines INIT, OPEN x h (h=1..4; read / write / read+write handles), then after the handles are known the interleaved sequences (READ|WRITE)^k [REALPATH] CLOSE per handle (k<=32; in a third of the sequences a command request sits between the last transfer and the CLOSE) " +
		"as raw frames without waiting for replies; request server: all ReadAt/WriteAt calls are held at gates until the next unanswered CLOSE frame has been written, then released in seeded orders; " +
		"os-backed server: 100-250 KB transfers; allocator off/on; kind openpipe additionally pipelines the OPENs with predicted handles (there a transfer that overtakes its OPEN and is refused is tolerated, the Close clauses are still checked). " +
		"kind hangup (os server): the same pipelines, the client half-closes right after the last frame without waiting for replies: when Serve has returned every write must be in the file and no reply received may be a failure (missing replies are C02's known finding F10, not judged). non-trivial = at least 2 transfers precede a CLOSE and (request server) at least 2 backend calls were blocked at once when gates were opened or (os) a transfer of 100000+ bytes")
	nProg, scheds := 300, 3
	if c.Thorough() {
		nProg, scheds = 1500, 5
	}
	stalls, rounds, mispred, overtaken := 0, 0, 0, 0
	for pi := 0; pi < nProg; pi++ {
		seed := c.Rng.Int63()
		nh := 1 + int(seed>>4)%4
		kmax := []int{4, 12, 32}[int(seed>>12)%3]
		openPipe := pi%5 == 4
		kind := "pipe"
		if openPipe {
			kind = "openpipe"
		}
		// request server, gated; every third program once more with handlers that have no OpenFile and a backend that refuses
		// some of the pipelined WRITEs (kind putfail): the refused WRITE is answered with a failure, every other transfer
		// succeeds, and the writer object is closed once, by the CLOSE, after all of them
		type rsVariant struct {
			alloc, putFail bool
		}
		variants := []rsVariant{{false, false}, {true, false}}
		if pi%3 == 0 && !openPipe {
			variants = append(variants, rsVariant{pi%2 == 0, true})
		}
		for _, vr := range variants {
			alloc := vr.alloc
			for si := 0; si < scheds; si++ {
				p := c14BuildF(rand.New(rand.NewSource(seed)), nh, kmax, false, openPipe, 0, vr.putFail)
				kind := kind
				if vr.putFail {
					kind = "putfail"
					c.Stat("cases_rs_putfail")
				}
				hub := newPgHub()
				g := newPgGate(false, hub)
				st := newPgStore(g)
				st.putOnly = vr.putFail
				c14PrepStore(st, p)
				in, err := pgStart(pgInstOpt{reqServer: true, alloc: alloc, store: st, hub: hub})
				if err != nil {
					c.Diag("c14 setup: %v", err)
					return
				}
				res := pgRun(in, p.reqs, pgRunOpt{gate: g, permSeed: seed + int64(si)*104729, permIdx: si, holdForClose: true})
				down := in.shutdown()
				g.setFree()
				n := c.Case(kind, kvs("srv", "rs"), kvb("alloc", alloc), kvx("seed", uint64(seed)), kvi("handles", nh), kvi("kmax", kmax), kvi("sched", si), kvi("reqs", len(p.reqs)))
				ov := 0
				ok, why := c14Check(p, res.resps, openPipe, &ov)
				if ok && ov == 0 {
					ok, why = c14Content(p, func(w string) ([]byte, bool) { return st.content("/" + w) })
				}
				overtaken += ov
				if ov > 0 {
					c.Stat("openpipe_cases_with_overtaken_open")
				}
				if ok {
					// one backend object per handle, in open order
					st.mu.Lock()
					objs := append([]*pgObj(nil), st.objs...)
					st.mu.Unlock()
					if len(objs) != len(p.hs) {
						ok, why = false, fmt.Sprintf("harness-objects: %d backend objects for %d handles", len(objs), len(p.hs))
					}
					for i, o := range objs {
						if !ok {
							break
						}
						switch {
						case atomic.LoadInt32(&o.closes) != 1:
							ok, why = false, fmt.Sprintf("close-count: object of handle %d closed %d times", i+1, o.closes)
						case atomic.LoadInt32(&o.closeInflight) != 0:
							ok, why = false, fmt.Sprintf("close-overtook-io: %d ReadAt/WriteAt calls of handle %d were in flight inside Close()", o.closeInflight, i+1)
						case atomic.LoadInt32(&o.late) != 0:
							ok, why = false, fmt.Sprintf("io-after-close: %d ReadAt/WriteAt calls of handle %d started after Close()", o.late, i+1)
						case int(atomic.LoadInt32(&o.calls)) != p.hs[i].nRW && ov == 0:
							ok, why = false, fmt.Sprintf("call-count: %d backend calls for %d requests on handle %d", o.calls, p.hs[i].nRW, i+1)
						}
					}
				}
				if ok && !down {
					ok, why = false, "server-hang: Serve did not return within 5 s of closing the connection"
				}
				c.Oracle(n, ok, why)
				total := 0
				for _, h := range p.hs {
					total += h.nRW
					c.Stat("handle_mode_" + h.mode)
				}
				if total >= 2 && res.maxBlocked >= 2 {
					c.NT(n)
				}
				c.Stat("rs_maxblocked_" + c02Bucket(res.maxBlocked))
				c.Stat(fmt.Sprintf("handles_%d", nh))
				c.Stat("cases_rs")
				if res.stalls > 0 {
					c.Stat("rs_cases_with_early_gates")
				}
				if res.timedOut {
					c.Stat("timeouts")
				}
				stalls += res.stalls
				rounds += res.rounds
				mispred += res.mispredicts
			}
		}
		// os-backed server, big transfers
		// (the fourth configuration is a server with the ReadOnly() option: reads and closes are what such a server is for, and
		// its CLOSE waits for the reads before it like any other)
		for ci, cfg := range []c02Cfg{{false, false, 0}, {false, true, 0}, {false, true, 262144}, {false, pi%2 == 1, 0}} {
			kb := kmax
			if kb > 12 {
				kb = 12
			}
			readOnly := ci == 3
			if readOnly {
				kb = kmax
				c.Stat("cases_os_readonly_server")
			}
			c14OnlyReadHandles = readOnly
			p := c14Build(rand.New(rand.NewSource(seed)), nh, kb, true, openPipe, cfg.maxTx)
			c14OnlyReadHandles = false
			dir, err := os.MkdirTemp("", "vh-c14-")
			if err != nil {
				c.Diag("c14 mktemp: %v", err)
				return
			}
			pgPopulateDir(dir)
			for _, h := range p.hs {
				if h.mode == "rw" {
					os.WriteFile(dir+"/"+h.wire, pgPatBytes(h.fileNo, 0, c14Pre), 0o644)
				}
			}
			in, err := pgStart(pgInstOpt{alloc: cfg.alloc, maxTx: cfg.maxTx, workDir: dir, readOnly: readOnly})
			if err != nil {
				os.RemoveAll(dir)
				c.Diag("c14 setup: %v", err)
				return
			}
			res := pgRun(in, p.reqs, pgRunOpt{})
			down := in.shutdown()
			n := c.Case(kind, kvs("srv", "os"), kvb("alloc", cfg.alloc), kvx("maxtx", uint64(cfg.maxTx)), kvx("seed", uint64(seed)), kvi("handles", nh), kvi("kmax", kb), kvi("reqs", len(p.reqs)), kvb("readonly", readOnly))
			ov := 0
			ok, why := c14Check(p, res.resps, openPipe, &ov)
			if ok && ov == 0 {
				ok, why = c14Content(p, func(w string) ([]byte, bool) { b, err := os.ReadFile(dir + "/" + w); return b, err == nil })
			}
			overtaken += ov
			if ov > 0 {
				c.Stat("openpipe_cases_with_overtaken_open")
			}
			if ok && !down {
				ok, why = false, "server-hang: Serve did not return within 5 s of closing the connection"
			}
			os.RemoveAll(dir)
			c.Oracle(n, ok, why)
			total := 0
			for _, h := range p.hs {
				total += h.nRW
			}
			if total >= 2 {
				c.NT(n)
			}
			c.Stat("cases_os")
			if res.timedOut {
				c.Stat("timeouts")
			}
		}
	}
	nHang := 60
	if c.Thorough() {
		nHang = 400
	}
	c14Hangups(c, nHang)
	c14SlowTransfers(c)
	c14BarrierAfterFailedSend(c)
	c.Diag("c14 openpipe: %d READ/WRITE requests overtook the pipelined OPEN whose handle they guessed (answered STATUS 4; tolerated: no client can know a handle before the OPEN reply)", overtaken)
	c.Diag("c14 scheduler: %d full gate rounds; %d gates had to be opened before the CLOSE frame could be written (pipeline full); %d runs fell back to the 50 ms idle rule", rounds, stalls, mispred)
}

// c14SlowTransfers (kind slowxfer): "all relative speeds" includes slow ones. OPEN, three WRITEs and the CLOSE of the handle
// are written back to back; the backend holds the WRITEs for 6.5 s. However long the transfers take, the handler object is
// closed only after all of them, and all of them succeed. (Two cases: each takes the 6.5 s.)
func c14SlowTransfers(c *Ctx) {
	var wg sync.WaitGroup
	type outcome struct {
		ok  bool
		why string
	}
	res := make([]outcome, 2)
	for i := 0; i < 2; i++ {
		wg.Add(1)
		go func(i int) {
			defer wg.Done()
			hub := newPgHub()
			g := newPgGate(false, hub)
			st := newPgStore(g)
			pgPopulateStore(st)
			in, err := pgStart(pgInstOpt{reqServer: true, alloc: i == 1, store: st, hub: hub})
			if err != nil {
				res[i] = outcome{false, "harness: " + err.Error()}
				return
			}
			var stream []byte
			stream = append(stream, rawInit()...)
			stream = append(stream, rawOpen(1, "w/slow", 0x1a, 0, nil)...)
			in.cli.SetWriteDeadline(time.Now().Add(5 * time.Second))
			in.cli.Write(stream)
			deadline := time.Now().Add(5 * time.Second)
			for in.col.count() < 2 && time.Now().Before(deadline) {
				time.Sleep(2 * time.Millisecond)
			}
			stream = nil
			for k := 0; k < 3; k++ {
				stream = append(stream, rawWrite(uint32(10+k), "1", uint64(k*100), bytes.Repeat([]byte{byte('a' + k)}, 100))...)
			}
			stream = append(stream, rawHandleOp(fxpClose, 20, "1")...)
			in.cli.SetWriteDeadline(time.Now().Add(5 * time.Second))
			in.cli.Write(stream)
			time.Sleep(6500 * time.Millisecond) // the WRITEs sit in the backend all this time
			g.setFree()
			deadline = time.Now().Add(5 * time.Second)
			for in.col.count() < 6 && time.Now().Before(deadline) {
				time.Sleep(2 * time.Millisecond)
			}
			resps := in.col.all()
			down := in.shutdown()
			st.mu.Lock()
			objs := append([]*pgObj(nil), st.objs...)
			st.mu.Unlock()
			switch {
			case len(resps) != 6:
				res[i] = outcome{false, fmt.Sprintf("slow-transfer: %d of 6 responses arrived", len(resps))}
			case len(objs) != 1:
				res[i] = outcome{false, fmt.Sprintf("harness-objects: %d backend objects for one handle", len(objs))}
			case atomic.LoadInt32(&objs[0].closeInflight) != 0:
				res[i] = outcome{false, fmt.Sprintf("close-overtook-io: %d WriteAt calls were still in progress inside Close() (they had been running for 6.5 s)", objs[0].closeInflight)}
			case atomic.LoadInt32(&objs[0].late) != 0:
				res[i] = outcome{false, fmt.Sprintf("io-after-close: %d WriteAt calls started after Close()", objs[0].late)}
			case atomic.LoadInt32(&objs[0].closes) != 1:
				res[i] = outcome{false, fmt.Sprintf("close-count: the object was closed %d times", objs[0].closes)}
			case !down:
				res[i] = outcome{false, "server-hang: Serve did not return within 5 s of closing the connection"}
			default:
				res[i] = outcome{true, ""}
				for k := 2; k < 6; k++ {
					if code, isSt := resps[k].statusCode(); !isSt || code != 0 {
						res[i] = outcome{false, fmt.Sprintf("io-before-close-failed: response %d is %s %d", k, pgTypeName(resps[k].Typ), code)}
					}
				}
			}
		}(i)
	}
	wg.Wait()
	for i := 0; i < 2; i++ {
		n := c.Case("slowxfer", kvb("alloc", i == 1), kvi("held_ms", 6500))
		c.NT(n)
		c.Stat("cases_rs_slowxfer")
		c.Oracle(n, res[i].ok, res[i].why)
	}
}
