package main

// C10 — the request server is a faithful adapter in both directions.

import (
	"context"
	"encoding/binary"
	"errors"
	"fmt"
	"io"
	"os"
	"path"
	"strings"
	"sync"
	"syscall"

	"github.com/pkg/sftp"
)

func init() { register("c10", runC10) }

// ---- recording handlers with every combination of optional interfaces ----
type recCall struct {
	entry, method, filepath, target string
	flags                           uint32
	attrs                           []byte
}
type recorder struct {
	mu    sync.Mutex
	calls []recCall
	ret   error
	real  string // what RealPath answers ("" = "/real")
	link  string // what Readlink answers ("" = "/tgt")
}

func (r *recorder) add(entry string, req *sftp.Request) {
	r.mu.Lock()
	defer r.mu.Unlock()
	c := recCall{entry: entry}
	if req != nil {
		c.method, c.filepath, c.target, c.flags, c.attrs = req.Method, req.Filepath, req.Target, req.Flags, append([]byte(nil), req.Attrs...)
	}
	r.calls = append(r.calls, c)
}
func (r *recorder) addStr(entry, s string) {
	r.mu.Lock()
	defer r.mu.Unlock()
	r.calls = append(r.calls, recCall{entry: entry, filepath: s})
}
func (r *recorder) take() []recCall {
	r.mu.Lock()
	defer r.mu.Unlock()
	c := r.calls
	r.calls = nil
	return c
}

type recBase struct{ r *recorder }

func (b recBase) Fileread(q *sftp.Request) (io.ReaderAt, error) {
	b.r.add("Fileread", q)
	if b.r.ret != nil {
		return nil, b.r.ret
	}
	return &memFile{data: []byte("0123456789")}, nil
}
func (b recBase) Filewrite(q *sftp.Request) (io.WriterAt, error) {
	b.r.add("Filewrite", q)
	if b.r.ret != nil {
		return nil, b.r.ret
	}
	return &memFile{data: []byte("0123456789")}, nil
}
func (b recBase) Filecmd(q *sftp.Request) error { b.r.add("Filecmd", q); return b.r.ret }
func (b recBase) Filelist(q *sftp.Request) (sftp.ListerAt, error) {
	b.r.add("Filelist", q)
	if b.r.ret != nil {
		return nil, b.r.ret
	}
	return oneLister{memInfo{"name", 3}}, nil
}

type withOpenFile struct{ recBase }

func (b withOpenFile) OpenFile(q *sftp.Request) (sftp.WriterAtReaderAt, error) {
	b.r.add("OpenFile", q)
	if b.r.ret != nil {
		return nil, b.r.ret
	}
	return &memFile{data: []byte("0123456789")}, nil
}

type cmdPR struct{ recBase }
type cmdSV struct{ recBase }
type cmdBoth struct{ recBase }

func (b cmdPR) PosixRename(q *sftp.Request) error   { b.r.add("PosixRename", q); return b.r.ret }
func (b cmdBoth) PosixRename(q *sftp.Request) error { b.r.add("PosixRename", q); return b.r.ret }
func (b cmdSV) StatVFS(q *sftp.Request) (*sftp.StatVFS, error) {
	b.r.add("StatVFS", q)
	return &sftp.StatVFS{Bsize: 512}, b.r.ret
}
func (b cmdBoth) StatVFS(q *sftp.Request) (*sftp.StatVFS, error) {
	b.r.add("StatVFS", q)
	return &sftp.StatVFS{Bsize: 512}, b.r.ret
}

type lsL struct{ recBase }
type lsR struct{ recBase }
type lsP struct{ recBase }
type lsLR struct{ recBase }
type lsLP struct{ recBase }
type lsRP struct{ recBase }
type lsLRP struct{ recBase }

func lstatImpl(b recBase, q *sftp.Request) (sftp.ListerAt, error) {
	b.r.add("Lstat", q)
	if b.r.ret != nil {
		return nil, b.r.ret
	}
	return oneLister{memInfo{"name", 3}}, nil
}
func readlinkImpl(b recBase, s string) (string, error) {
	b.r.addStr("Readlink", s)
	if b.r.link != "" {
		return b.r.link, b.r.ret
	}
	return "/tgt", b.r.ret
}
func realpathImpl(b recBase, s string) (string, error) {
	b.r.addStr("RealPath", s)
	if b.r.real != "" {
		return b.r.real, b.r.ret
	}
	return "/real", b.r.ret
}

func (b lsL) Lstat(q *sftp.Request) (sftp.ListerAt, error)   { return lstatImpl(b.recBase, q) }
func (b lsLR) Lstat(q *sftp.Request) (sftp.ListerAt, error)  { return lstatImpl(b.recBase, q) }
func (b lsLP) Lstat(q *sftp.Request) (sftp.ListerAt, error)  { return lstatImpl(b.recBase, q) }
func (b lsLRP) Lstat(q *sftp.Request) (sftp.ListerAt, error) { return lstatImpl(b.recBase, q) }
func (b lsR) Readlink(s string) (string, error)              { return readlinkImpl(b.recBase, s) }
func (b lsLR) Readlink(s string) (string, error)             { return readlinkImpl(b.recBase, s) }
func (b lsRP) Readlink(s string) (string, error)             { return readlinkImpl(b.recBase, s) }
func (b lsLRP) Readlink(s string) (string, error)            { return readlinkImpl(b.recBase, s) }
func (b lsP) RealPath(s string) (string, error)              { return realpathImpl(b.recBase, s) }
func (b lsLP) RealPath(s string) (string, error)             { return realpathImpl(b.recBase, s) }
func (b lsRP) RealPath(s string) (string, error)             { return realpathImpl(b.recBase, s) }
func (b lsLRP) RealPath(s string) (string, error)            { return realpathImpl(b.recBase, s) }

type ifcSet struct{ openfile, lstat, readlink, realpath, posixrename, statvfs bool }

func recHandlers(r *recorder, i ifcSet) sftp.Handlers {
	b := recBase{r}
	h := sftp.Handlers{FileGet: b, FilePut: b, FileCmd: b, FileList: b}
	if i.openfile {
		h.FilePut = withOpenFile{b}
	}
	switch {
	case i.posixrename && i.statvfs:
		h.FileCmd = cmdBoth{b}
	case i.posixrename:
		h.FileCmd = cmdPR{b}
	case i.statvfs:
		h.FileCmd = cmdSV{b}
	}
	switch {
	case i.lstat && i.readlink && i.realpath:
		h.FileList = lsLRP{b}
	case i.lstat && i.readlink:
		h.FileList = lsLR{b}
	case i.lstat && i.realpath:
		h.FileList = lsLP{b}
	case i.readlink && i.realpath:
		h.FileList = lsRP{b}
	case i.lstat:
		h.FileList = lsL{b}
	case i.readlink:
		h.FileList = lsR{b}
	case i.realpath:
		h.FileList = lsP{b}
	}
	return h
}

func absClean(p string) bool {
	if !strings.HasPrefix(p, "/") || path.Clean(p) != p {
		return false
	}
	for _, s := range strings.Split(p, "/")[1:] {
		if s == ".." || s == "." || (s == "" && p != "/") {
			return false
		}
	}
	return true
}

type errSpec struct {
	wrap, base string
	errno      syscall.Errno
	fx         uint32
	sentinel   int // base "other": 0 a fresh error; 1.. other well-known error values that are failures, not one of the special categories
}

var c10OtherSentinels = []error{nil, io.ErrUnexpectedEOF, io.ErrClosedPipe, io.ErrShortWrite, os.ErrClosed, os.ErrInvalid, context.DeadlineExceeded, io.ErrNoProgress}

func (e errSpec) build() error {
	var b error
	switch e.base {
	case "nil":
		return nil
	case "notexist":
		b = os.ErrNotExist
	case "permission":
		b = os.ErrPermission
	case "eof":
		b = io.EOF
	case "errno":
		b = e.errno
	case "fx":
		b = []error{sftp.ErrSSHFxOk, sftp.ErrSSHFxEOF, sftp.ErrSSHFxNoSuchFile, sftp.ErrSSHFxPermissionDenied, sftp.ErrSSHFxFailure, sftp.ErrSSHFxBadMessage,
			sftp.ErrSSHFxNoConnection, sftp.ErrSSHFxConnectionLost, sftp.ErrSSHFxOpUnsupported}[e.fx]
	default:
		b = errors.New("some text")
		if e.sentinel > 0 {
			b = c10OtherSentinels[e.sentinel]
		}
	}
	switch e.wrap {
	case "path":
		return &os.PathError{Op: "op", Path: "/p", Err: b}
	case "link":
		return &os.LinkError{Op: "op", Old: "/a", New: "/b", Err: b}
	case "syscall":
		return os.NewSyscallError("call", b)
	case "fmt":
		return fmt.Errorf("ctx: %w", b)
	}
	return b
}

func catOfErr(err error) string {
	switch {
	case err == nil:
		return "ok"
	case errors.Is(err, io.EOF):
		return "eof"
	case errors.Is(err, os.ErrNotExist):
		return "notexist"
	case errors.Is(err, os.ErrPermission):
		return "permission"
	}
	var se *sftp.StatusError
	if errors.As(err, &se) {
		return fmt.Sprintf("failure:%x", se.Code)
	}
	return "failure:?"
}

func runC10(c *Ctx) {
	c.Rule("(a) path.Clean / cleanPathWithBase / toLocalPath on ALL strings over {'/','.','a',0xff} up to length 6 (quick) or 7 (thorough) x bases; (b) statusFromError+normaliseError on every wrapper x base error value incl. every errno 1..40; " +
		"(c) every path-taking request type x path strings x start directories x all 64 optional-interface combinations through a real RequestServer with recording handlers, also with handler errors returned; " +
		"non-trivial = path with a dot-dot, repeated or trailing slash or non-UTF-8 byte; error value other than nil; request reaching a handler")
	alpha := []byte{'/', '.', 'a', 0xff}
	maxLen := 6
	if c.Thorough() {
		maxLen = 7
	}
	var all []string
	var gen func(prefix []byte)
	gen = func(prefix []byte) {
		all = append(all, string(prefix))
		if len(prefix) == maxLen {
			return
		}
		for _, a := range alpha {
			gen(append(append([]byte(nil), prefix...), a))
		}
	}
	gen(nil)
	for _, p := range all {
		n := c.Case("clean", kvh("p", []byte(p)))
		c.Obs(n, kvh("out", []byte(path.Clean(p))))
		c.Oracle(n, true, "")
		nt := strings.Contains(p, "..") || strings.Contains(p, "//") || strings.HasSuffix(p, "/") || strings.Contains(p, "\xff")
		if nt {
			c.NT(n)
		}
		for _, base := range []string{"/", "/x", "/x/y"} {
			if base != "/" && len(p) > 5 {
				continue
			}
			out := sftp.VerifCleanPathWithBase(base, p)
			n := c.Case("cleanbase", kvh("base", []byte(base)), kvh("p", []byte(p)))
			if nt {
				c.NT(n)
			}
			c.Obs(n, kvh("out", []byte(out)))
			ok, why := true, ""
			if !absClean(out) {
				ok, why = false, fmt.Sprintf("cleanPathWithBase(%q, %q) = %q is not absolute and lexically clean", base, p, out)
			}
			c.Oracle(n, ok, why)
		}
		if len(p) <= 5 {
			for _, w := range []string{"", "/w", "/w/v"} {
				n := c.Case("tolocal", kvh("w", []byte(w)), kvh("p", []byte(p)))
				c.Obs(n, kvh("out", []byte(sftp.VerifToLocalPath(w, p))))
				c.Oracle(n, true, "")
			}
		}
	}
	c.StatN("path_strings", len(all))

	// (b) error values
	var specs []errSpec
	for _, w := range []string{"bare", "path", "link", "syscall", "fmt"} {
		for _, b := range []string{"nil", "notexist", "permission", "eof", "other"} {
			specs = append(specs, errSpec{wrap: w, base: b})
		}
		for e := 1; e <= 40; e++ {
			specs = append(specs, errSpec{wrap: w, base: "errno", errno: syscall.Errno(e)})
		}
		for k := 1; k < len(c10OtherSentinels); k++ {
			specs = append(specs, errSpec{wrap: w, base: "other", sentinel: k})
		}
		for f := 0; f <= 8; f++ {
			specs = append(specs, errSpec{wrap: w, base: "fx", fx: uint32(f)})
		}
	}
	for _, s := range specs {
		err := s.build()
		code := sftp.VerifStatusCode(err)
		back := sftp.VerifNormalise(code)
		n := c.Case("status", kvs("wrap", s.wrap), kvs("base", s.base), kvx("errno", uint64(s.errno)), kvx("fx", uint64(s.fx)), kvi("sentinel", s.sentinel))
		if s.base != "nil" {
			c.NT(n)
		}
		c.Obs(n, kvx("code", uint64(code)), kvs("cat", catOfErr(back)))
		ok, why := true, ""
		if s.wrap != "fmt" && !(s.base == "errno" && s.errno == 0) {
			want := catOfErr(err)
			if s.base == "fx" {
				want = []string{"ok", "eof", "notexist", "permission", "failure:4", "failure:5", "failure:6", "failure:7", "failure:8"}[s.fx]
			} else if strings.HasPrefix(want, "failure") {
				want = "failure:4"
			}
			if got := catOfErr(back); got != want {
				ok, why = false, fmt.Sprintf("error %s/%s(errno %d, fx %d) reaches the client as %s, want %s", s.wrap, s.base, s.errno, s.fx, got, want)
			}
		}
		c.Oracle(n, ok, why)
		c.Stat("err_wrap_" + s.wrap)
	}

	// (c) dispatch through a real RequestServer
	paths := []string{"", ".", "/", "a", "/a/b", "a/../..", "../../etc/x", "/a//b/", "a/./b/..", "\xff\xfe", "./", "/..", "a b/c"}
	if c.Thorough() {
		for i := 0; i < 60; i++ {
			paths = append(paths, all[c.Rng.Intn(len(all))])
		}
	}
	starts := []string{"", "/home/u", "rel/dir/.."}
	nifc := 64
	for ii := 0; ii < nifc; ii++ {
		i := ifcSet{ii&1 != 0, ii&2 != 0, ii&4 != 0, ii&8 != 0, ii&16 != 0, ii&32 != 0}
		for si, start := range starts {
			if !c.Thorough() && (ii+si)%3 != 0 {
				continue
			}
			rec := &recorder{}
			rs, err := newRawSession(pairOpt{reqServer: true, handlers: recHandlers(rec, i), startDir: start})
			if err != nil {
				c.Diag("raw session: %v", err)
				continue
			}
			id := uint32(10)
			send := func(kind string, p *sftp.VerifPacket, fr []byte) {
				id++
				rec.take()
				resp, err := rs.do(fr)
				calls := rec.take()
				n := c.Case("dispatch", kvh("start", []byte(start)), kvi("ifc", ii), "p="+canon(p))
				obs := "none"
				if len(calls) >= 1 {
					cl := calls[0]
					obs = fmt.Sprintf("%s:%s:%s:%s:%x:%s", cl.entry, cl.method, hx(cl.filepath), hx(cl.target), cl.flags, hexs(cl.attrs))
					c.NT(n)
				}
				c.Obs(n, "call="+obs)
				ok, why := true, ""
				if err != nil || resp == nil {
					ok, why = false, "no response"
				} else if len(calls) > 1 {
					// an OPEN that succeeds is followed by nothing else; opendir likewise: exactly one handler invocation per request
					ok, why = false, fmt.Sprintf("%d handler calls for one %s request", len(calls), kind)
				} else if len(calls) == 1 {
					cl := calls[0]
					verbatim := (cl.entry == "Filecmd" && cl.method == "Symlink") || cl.entry == "RealPath"
					if !verbatim && !absClean(cl.filepath) {
						ok, why = false, fmt.Sprintf("%s handler received path %q: not absolute and clean", cl.entry, cl.filepath)
					}
					if cl.target != "" && !absClean(cl.target) {
						ok, why = false, fmt.Sprintf("%s handler received target %q: not absolute and clean", cl.entry, cl.target)
					}
					// relative paths are resolved against the configured start directory, nothing else
					cstart := "/"
					if start != "" {
						cstart = sftp.VerifCleanPathWithBase("/", start)
					}
					under := func(sent, got string) bool {
						if path.IsAbs(path.Clean(sent)) {
							return got == path.Clean(sent)
						}
						return got == path.Join(cstart, sent)
					}
					if !verbatim && !under(p.S1, cl.filepath) {
						ok, why = false, fmt.Sprintf("%s handler received path %q for %q with start directory %q", cl.entry, cl.filepath, p.S1, cstart)
					}
					if cl.target != "" && !under(p.S2, cl.target) {
						ok, why = false, fmt.Sprintf("%s handler received target %q for %q with start directory %q", cl.entry, cl.target, p.S2, cstart)
					}
					if verbatim && cl.entry == "Filecmd" && cl.filepath != p.S1 {
						ok, why = false, "symlink target text was altered"
					}
					if kind == "open" || kind == "setstat" {
						if uint64(cl.flags) != map[string]uint64{"open": p.N1, "setstat": p.N2}[kind] {
							ok, why = false, fmt.Sprintf("%s: flags %x arrived as %x", kind, p.N1, cl.flags)
						}
						if string(cl.attrs) != string(p.Raw) {
							ok, why = false, kind+": attribute bytes altered"
						}
					}
				}
				if h, isH := resp.handle(); err == nil && isH {
					// the handle serves the access the OPEN asked for: a handle opened with READ answers a READ (data or EOF) whenever
					// the handlers can provide a reader for that open (no write-ish flag, or an OpenFileWriter), one opened with WRITE
					// takes a WRITE
					if kind == "open" && ok {
						pf := uint32(p.N1)
						writeish := pf&(2|4|8|16) != 0
						if pf&1 != 0 && (!writeish || i.openfile) {
							if r2, e2 := rs.do(rawRead(7, h, 0, 1)); e2 != nil {
								ok, why = false, "open-access: READ on a handle opened with READ was not answered"
							} else if code, isStatus := r2.statusCode(); isStatus && code != 1 {
								ok, why = false, fmt.Sprintf("open-access: READ on a handle opened with pflags %x (READ set) was refused with status %d", pf, code)
							}
							// data as given: the handler's file holds "0123456789"; a READ that runs over its end is answered with the bytes
							// that are there (the handler's ReadAt returns them together with io.EOF), one at the end with EOF
							if r3, e3 := rs.do(rawRead(17, h, 4, 100)); e3 != nil {
								ok, why = false, "data-as-given: READ across the end of the file was not answered"
							} else if d, isData := r3.data(); !isData || string(d) != "456789" {
								code, _ := r3.statusCode()
								ok, why = false, fmt.Sprintf("data-as-given: READ of 100 bytes at offset 4 of a 10-byte file on a handle opened with pflags %x returned %s %q (status %d), the handler gave 6 bytes", pf, pgTypeName(r3.Typ), d, code)
							}
							if r4, e4 := rs.do(rawRead(18, h, 10, 5)); e4 != nil {
								ok, why = false, "data-as-given: READ at the end of the file was not answered"
							} else if code, isStatus := r4.statusCode(); !isStatus || code != 1 {
								ok, why = false, fmt.Sprintf("data-as-given: READ at the end of the file answered %s (status %d), not EOF", pgTypeName(r4.Typ), code)
							}
						}
						if pf&2 != 0 {
							if r2, e2 := rs.do(rawWrite(8, h, 0, []byte("x"))); e2 != nil {
								ok, why = false, "open-access: WRITE on a handle opened with WRITE was not answered"
							} else if code, isStatus := r2.statusCode(); !isStatus || code != 0 {
								ok, why = false, fmt.Sprintf("open-access: WRITE on a handle opened with pflags %x (WRITE set) was refused with status %d", pf, code)
							}
						}
					}
					rs.do(rawHandleOp(fxpClose, 9, h))
					rec.take()
				}
				// the other direction: what the handler returned reaches the client unchanged in kind. The recording handlers return
				// one entry {name "name", size 3} together with io.EOF from ListAt (as the ListerAt contract allows), "/tgt" from
				// Readlink, "/real" from RealPath and Bsize 512 from StatVFS.
				if ok && err == nil && resp != nil {
					firstName := func() (string, bool) {
						if resp.Typ != fxpName || len(resp.Body) < 8 || binary.BigEndian.Uint32(resp.Body) != 1 {
							return "", false
						}
						l := binary.BigEndian.Uint32(resp.Body[4:])
						if uint64(l)+8 > uint64(len(resp.Body)) {
							return "", false
						}
						return string(resp.Body[8 : 8+l]), true
					}
					switch kind {
					case "stat", "lstat":
						if resp.Typ != fxpAttrs || len(resp.Body) < 12 || binary.BigEndian.Uint32(resp.Body)&1 == 0 || binary.BigEndian.Uint64(resp.Body[4:]) != 3 {
							ok, why = false, fmt.Sprintf("reply-altered: the handler returned one entry of size 3 for %s (with io.EOF in the same ListAt call); the client got %s", kind, pgTypeName(resp.Typ))
							if code, isStatus := resp.statusCode(); isStatus {
								why += fmt.Sprintf(" %d", code)
							}
						}
					case "readlink":
						want := "name"
						if i.readlink {
							want = "/tgt"
						}
						if got, isName := firstName(); !isName || got != want {
							ok, why = false, fmt.Sprintf("reply-altered: readlink: the handler returned %q; the client got %s %q", want, pgTypeName(resp.Typ), got)
						}
					case "realpath":
						if got, isName := firstName(); !isName || (i.realpath && got != "/real") {
							ok, why = false, fmt.Sprintf("reply-altered: realpath: the client got %s %q", pgTypeName(resp.Typ), got)
						}
					case "statvfs":
						if i.statvfs && (resp.Typ != fxpExtendedReply || len(resp.Body) < 8 || binary.BigEndian.Uint64(resp.Body) != 512) {
							ok, why = false, "reply-altered: statvfs: the handler returned Bsize 512; the client got "+pgTypeName(resp.Typ)
						}
					}
				}
				c.Oracle(n, ok, why)
				c.Stat("req_" + kind)
			}
			for pi, p := range paths {
				if !c.Thorough() && (pi+ii)%2 != 0 && pi > 3 {
					continue
				}
				q := paths[(pi+3)%len(paths)]
				pfs := []uint32{1, 2, 3, 0x1a, 0x0b, 4, 0}
				if pi < 2 { // every combination of the six open flags on the first two paths (which handler, which method)
					pfs = nil
					for pf := uint32(0); pf < 64; pf++ {
						pfs = append(pfs, pf)
					}
				}
				for _, pf := range pfs {
					blk := attrBlock(4, 0, 0, 0, 0o640, 0, 0)
					send("open", &sftp.VerifPacket{Kind: "open", ID: id + 1, S1: p, N1: uint64(pf), N2: 4, HasRaw: true, Raw: blk}, rawOpen(id+1, p, pf, 4, blk))
				}
				for _, t := range []struct {
					kind string
					typ  byte
				}{{"opendir", fxpOpendir}, {"remove", fxpRemove}, {"rmdir", fxpRmdir}, {"stat", fxpStat}, {"lstat", fxpLstat}, {"readlink", fxpReadlink}, {"realpath", fxpRealpath}} {
					send(t.kind, &sftp.VerifPacket{Kind: t.kind, ID: id + 1, S1: p}, rawPathOp(t.typ, id+1, p))
				}
				send("mkdir", &sftp.VerifPacket{Kind: "mkdir", ID: id + 1, S1: p, HasRaw: true}, rawMkdir(id+1, p))
				blk := attrBlock(9, 77, 0, 0, 0, 5, 6)
				send("setstat", &sftp.VerifPacket{Kind: "setstat", ID: id + 1, S1: p, N2: 9, HasRaw: true, Raw: blk}, rawSetstat(id+1, p, 9, blk))
				send("rename", &sftp.VerifPacket{Kind: "rename", ID: id + 1, S1: p, S2: q}, rawTwoPath(fxpRename, id+1, p, q))
				send("symlink", &sftp.VerifPacket{Kind: "symlink", ID: id + 1, S1: p, S2: q}, rawTwoPath(fxpSymlink, id+1, p, q))
				send("posixrename", &sftp.VerifPacket{Kind: "posixrename", ID: id + 1, S1: p, S2: q}, rawExtended(id+1, "posix-rename@openssh.com", (&rb{}).str(p).str(q).b))
				send("hardlink", &sftp.VerifPacket{Kind: "hardlink", ID: id + 1, S1: p, S2: q}, rawExtended(id+1, "hardlink@openssh.com", (&rb{}).str(p).str(q).b))
				send("statvfs", &sftp.VerifPacket{Kind: "statvfs", ID: id + 1, S1: p}, rawExtended(id+1, "statvfs@openssh.com", (&rb{}).str(p).b))
			}
			rs.Close()
		}
	}
	c10ReplyMaps(c)
	c10ListPages(c)
	c10OwnerGiven(c)
	// texts as given: what a handler's own RealPath / Readlink returns is the handler's answer - with a trailing slash, doubled
	// slashes, dot segments, relative - and reaches the client byte for byte (the server cleans what it hands TO handlers, not what
	// they hand back)
	for ai, ans := range []string{"/srv/data/", "data/sub", "/a//b", "/a/./b/..", "rel/../x", "/", "//", "./", "/real path/\xff"} {
		rec := &recorder{real: ans, link: ans}
		p, err := newPair(pairOpt{reqServer: true, handlers: recHandlers(rec, ifcSet{true, true, true, true, true, true})})
		if err != nil {
			continue
		}
		gotReal, e1 := p.Client.RealPath("/q")
		gotLink, e2 := p.Client.ReadLink("/q")
		p.Close()
		n := c.Case("textasgiven", kvi("i", ai), kvh("answer", []byte(ans)))
		c.NT(n)
		c.Stat("textasgiven_cases")
		switch {
		case e1 != nil || e2 != nil:
			c.Oracle(n, false, fmt.Sprintf("text-as-given: RealPath / ReadLink failed: %v / %v", e1, e2))
		case gotReal != ans:
			c.Oracle(n, false, fmt.Sprintf("text-as-given: the handler's RealPath answered %q, the client got %q", ans, gotReal))
		case gotLink != ans:
			c.Oracle(n, false, fmt.Sprintf("text-as-given: the handler's Readlink answered %q, the client got %q", ans, gotLink))
		default:
			c.Oracle(n, true, "")
		}
	}
	// (d) errors returned by handlers reach a real client unchanged in kind
	for _, s := range specs {
		if s.base == "nil" || (s.base == "errno" && s.errno > 14) {
			continue
		}
		rec := &recorder{ret: s.build()}
		p, err := newPair(pairOpt{reqServer: true, handlers: recHandlers(rec, ifcSet{})})
		if err != nil {
			continue
		}
		results := map[string]error{}
		_, results["open"] = p.Client.Open("/f")
		_, results["stat"] = p.Client.Stat("/f")
		results["mkdir"] = p.Client.Mkdir("/d")
		_, results["readdir"] = p.Client.ReadDir("/d")
		p.Close()
		code := sftp.VerifStatusCode(s.build())
		want := catOfErr(sftp.VerifNormalise(code))
		n := c.Case("handlererr", kvs("wrap", s.wrap), kvs("base", s.base), kvx("errno", uint64(s.errno)), kvx("fx", uint64(s.fx)))
		c.NT(n)
		ok, why := true, ""
		for op, e := range results {
			got := catOfErr(e)
			if op == "readdir" && want == "eof" {
				continue // ReadDir maps EOF to a nil error by design
			}
			if got != want && !(want == "ok") {
				ok, why = false, fmt.Sprintf("handler error %s/%s returned from %s reaches the client as %s, want %s", s.wrap, s.base, op, got, want)
			}
			if strings.HasPrefix(want, "failure:4") && s.base == "other" && s.sentinel == 0 && e != nil && !strings.Contains(e.Error(), "some text") {
				ok, why = false, "failure does not carry the handler's error text: "+e.Error()
			}
		}
		c.Oracle(n, ok, why)
		// the same errors from handlers that implement every optional interface, through the operations those interfaces serve (and
		// the plain commands): the client gets the error's kind, and the handlers are entered exactly once per request - an error value
		// is an answer, not a reason to ask another entry point
		rec2 := &recorder{ret: s.build()}
		p2, err := newPair(pairOpt{reqServer: true, handlers: recHandlers(rec2, ifcSet{true, true, true, true, true, true})})
		if err != nil {
			continue
		}
		type opRes struct {
			op    string
			err   error
			calls int
		}
		var rs2 []opRes
		run := func(op string, f func() error) {
			rec2.take()
			e := f()
			rs2 = append(rs2, opRes{op, e, len(rec2.take())})
		}
		run("posixrename", func() error { return p2.Client.PosixRename("/a", "/b") })
		run("rename", func() error { return p2.Client.Rename("/a", "/b") })
		run("symlink", func() error { return p2.Client.Symlink("/a", "/b") })
		run("link", func() error { return p2.Client.Link("/a", "/b") })
		run("remove-rmdir", func() error { return p2.Client.RemoveDirectory("/a") })
		run("chmod", func() error { return p2.Client.Chmod("/a", 0o600) })
		run("statvfs", func() error { _, e := p2.Client.StatVFS("/a"); return e })
		run("lstat", func() error { _, e := p2.Client.Lstat("/a"); return e })
		run("readlink", func() error { _, e := p2.Client.ReadLink("/a"); return e })
		run("realpath", func() error { _, e := p2.Client.RealPath("/a"); return e })
		p2.Close()
		n2 := c.Case("handlererr-all", kvs("wrap", s.wrap), kvs("base", s.base), kvx("errno", uint64(s.errno)), kvx("fx", uint64(s.fx)))
		c.NT(n2)
		ok2, why2 := true, ""
		for _, r := range rs2 {
			got := catOfErr(r.err)
			if want != "ok" && got != want && !(want == "eof" && (r.op == "lstat" || r.op == "readlink")) {
				ok2, why2 = false, fmt.Sprintf("handler error %s/%s returned from %s reaches the client as %s, want %s", s.wrap, s.base, r.op, got, want)
			}
			if r.calls != 1 && ok2 {
				ok2, why2 = false, fmt.Sprintf("handler-calls: %s with a handler that returns %s/%s entered the handlers %d times, want exactly once", r.op, s.wrap, s.base, r.calls)
			}
		}
		c.Oracle(n2, ok2, why2)
		c.Stat("handlererr_all_interfaces")
	}
}
