package main

// C07 — no byte stream can crash, wedge or trick a server. Oracle-only family.
// A corpus of valid, sequentially-deterministic raw sessions is mutated (EOF at every offset, frames truncated with a
// consistent length, every 4-byte window overwritten, every type byte replaced, garbage appended). Each mutated stream
// is fed to a real server inside a child process (a panic in a server goroutine kills the process; the parent maps the
// crash to the case) while the responses are drained continuously. Transport, in-memory backend and tree snapshot
// are shared with c11.go.
//
// Feeding: every leading packet of the mutated stream that frames and decodes is sent on its own and answered before
// the next one (READ/WRITE packets are served by parallel workers and may overtake a preceding OPEN, so a stream sent
// in one go has no single correct response sequence); everything from the first malformed byte on is sent in one
// write, then the client->server direction is closed.
//
// Diagnostics (not part of the checked runs): `vh ... c07 burst` sends every stream in one write and applies only the
// crash/hang/leak oracles (verdicts then depend on scheduling); env C07_ONLY=os|req restricts the servers, C07_DUMP=1
// adds the crash dump of every lost child as a diag line, C07_FDDEBUG=1 appends the descriptor listings to fd-leak reasons.

import (
	"bufio"
	"bytes"
	"encoding/binary"
	"fmt"
	"io"
	"math/rand"
	"os"
	"os/exec"
	"path/filepath"
	"runtime"
	"runtime/debug"
	"sort"
	"strconv"
	"strings"
	"sync"
	"time"

	"github.com/pkg/sftp"
)

func init() {
	register("c07", runC07)
	childEntries["c07"] = c07ChildMain
}

// ---------------------------------------------------------------------------------------------------------------
// corpus

type c07Session struct {
	name    string
	frames  [][]byte
	kinds   []string       // request name per frame
	handles map[int]string // frame index of an OPEN/OPENDIR expected to succeed -> predicted handle
}

type c07Builder struct {
	srv     string
	id      uint32
	opens   int // request server: every OPEN/OPENDIR consumes a handle number
	okOpens int // os server: only successful ones do
	s       *c07Session
}

func (b *c07Builder) add(kind string, mk func(id uint32) []byte) {
	b.id++
	b.s.frames = append(b.s.frames, mk(b.id))
	b.s.kinds = append(b.s.kinds, kind)
}

func (b *c07Builder) predict(ok bool) string {
	b.opens++
	if !ok {
		return ""
	}
	b.okOpens++
	h := strconv.Itoa(b.okOpens)
	if b.srv == "req" {
		h = strconv.Itoa(b.opens)
	}
	b.s.handles[len(b.s.frames)] = h
	return h
}

func (b *c07Builder) open(p string, pflags, aflags uint32, attrs []byte, ok bool) string {
	h := b.predict(ok)
	b.add("OPEN", func(id uint32) []byte { return rawOpen(id, p, pflags, aflags, attrs) })
	return h
}
func (b *c07Builder) opendir(p string, ok bool) string {
	h := b.predict(ok)
	b.add("OPENDIR", func(id uint32) []byte { return rawPathOp(fxpOpendir, id, p) })
	return h
}
func (b *c07Builder) pathOp(kind string, typ byte, p string) {
	b.add(kind, func(id uint32) []byte { return rawPathOp(typ, id, p) })
}
func (b *c07Builder) handleOp(kind string, typ byte, h string) {
	b.add(kind, func(id uint32) []byte { return rawHandleOp(typ, id, h) })
}
func (b *c07Builder) read(h string, off uint64, l uint32) {
	b.add("READ", func(id uint32) []byte { return rawRead(id, h, off, l) })
}
func (b *c07Builder) write(h string, off uint64, data []byte) {
	b.add("WRITE", func(id uint32) []byte { return rawWrite(id, h, off, data) })
}
func (b *c07Builder) twoPath(kind string, typ byte, p, q string) {
	b.add(kind, func(id uint32) []byte { return rawTwoPath(typ, id, p, q) })
}
func (b *c07Builder) setstat(p string, fl uint32, attrs []byte) {
	b.add("SETSTAT", func(id uint32) []byte { return rawSetstat(id, p, fl, attrs) })
}
func (b *c07Builder) ext(kind, name string, payload []byte) {
	b.add(kind, func(id uint32) []byte { return rawExtended(id, name, payload) })
}

func c07Pattern(n int, salt byte) []byte {
	out := make([]byte, n)
	for i := range out {
		out[i] = 'a' + byte((i+int(salt))%23)
	}
	return out
}

// c07Corpus: the valid sessions. Rules that keep them deterministic under pipelining: every run of READ/WRITE on a handle
// is closed (CLOSE is the packet manager's barrier) before anything that could observe or change the same file; all
// paths are relative and never begin with '.' or '0' (so no single-byte +-1 can make one absolute).
func c07Corpus(srv string) []*c07Session {
	var out []*c07Session
	mk := func(name string, f func(b *c07Builder)) {
		b := &c07Builder{srv: srv, s: &c07Session{name: name, handles: map[int]string{}}}
		b.s.frames = append(b.s.frames, rawInit())
		b.s.kinds = append(b.s.kinds, "INIT")
		f(b)
		out = append(out, b.s)
	}
	mk("create-write-list", func(b *c07Builder) {
		b.add("MKDIR", func(id uint32) []byte { return rawMkdir(id, "d1") })
		h := b.open("d1/f.txt", 0x1a, 4, attrBlock(4, 0, 0, 0, 0o640, 0, 0), true)
		b.write(h, 0, []byte("hello world\n"))
		b.write(h, 12, []byte("second chunk"))
		b.handleOp("CLOSE", fxpClose, h)
		b.pathOp("STAT", fxpStat, "d1/f.txt")
		b.pathOp("LSTAT", fxpLstat, "d1/f.txt")
		h2 := b.opendir("d1", true)
		b.handleOp("READDIR", fxpReaddir, h2)
		b.handleOp("READDIR", fxpReaddir, h2)
		b.handleOp("CLOSE", fxpClose, h2)
		b.twoPath("RENAME", fxpRename, "d1/f.txt", "d1/g.txt")
		b.setstat("d1/g.txt", 4|8, attrBlock(4|8, 0, 0, 0, 0o600, 1111111111, 1222222222))
		b.ext("EXTENDED", "bogus@example.com", []byte("payload"))
		h3 := b.open("d1/g.txt", 1, 0, nil, true)
		b.read(h3, 0, 100)
		b.read(h3, 5, 4)
		b.handleOp("CLOSE", fxpClose, h3)
		b.pathOp("REMOVE", fxpRemove, "d1/g.txt")
		b.pathOp("RMDIR", fxpRmdir, "d1")
		b.pathOp("REALPATH", fxpRealpath, "keep/k1")
	})
	mk("existing-links-failures", func(b *c07Builder) {
		b.pathOp("STAT", fxpStat, "pre.txt")
		h := b.open("pre.txt", 1, 0, nil, true)
		b.handleOp("FSTAT", fxpFstat, h)
		b.read(h, 0, 10)
		b.read(h, 100000, 10)
		b.handleOp("CLOSE", fxpClose, h)
		b.handleOp("CLOSE", fxpClose, h)
		b.read(h, 0, 10)
		b.open("missing.txt", 1, 0, nil, false)
		b.twoPath("SYMLINK", fxpSymlink, "pre.txt", "lnk")
		b.pathOp("READLINK", fxpReadlink, "lnk")
		b.pathOp("LSTAT", fxpLstat, "lnk")
		b.ext("POSIX-RENAME", "posix-rename@openssh.com", (&rb{}).str("pre.txt").str("q.txt").b)
		b.ext("HARDLINK", "hardlink@openssh.com", (&rb{}).str("q.txt").str("q2.txt").b)
		b.setstat("q.txt", 1, attrBlock(1, 4, 0, 0, 0, 0, 0))
		// size and one extended pair (the pair is ignored by both servers; the count field and the pair's lengths are there to be
		// mutated: a count that announces more pairs than the block holds makes the request malformed)
		b.setstat("q.txt", 0x80000001, append(attrBlock(1, 5, 0, 0, 0, 0, 0), (&rb{}).u32(1).str("aaaaaaaa").str("").b...))
		h = b.open("q.txt", 3, 0, nil, true)
		b.add("FSETSTAT", func(id uint32) []byte { return rawFsetstat(id, h, 4, attrBlock(4, 0, 0, 0, 0o600, 0, 0)) })
		b.write(h, 2, []byte("ZZ"))
		b.handleOp("CLOSE", fxpClose, h)
		h = b.open("q2.txt", 1, 0, nil, true)
		b.read(h, 0, 50)
		b.handleOp("CLOSE", fxpClose, h)
		b.pathOp("REMOVE", fxpRemove, "q2.txt")
		b.pathOp("RMDIR", fxpRmdir, "nonexistent")
		b.pathOp("STAT", fxpStat, "lnk")
	})
	mk("many-handles", func(b *c07Builder) {
		b.add("MKDIR", func(id uint32) []byte { return rawMkdir(id, "a") })
		b.add("MKDIR", func(id uint32) []byte { return rawMkdir(id, "a/b") })
		hx := b.open("a/x", 0x0a, 0, nil, true)
		hy := b.open("a/y", 0x0b, 0, nil, true)
		b.write(hx, 0, []byte("xxxxxxxx"))
		b.write(hy, 0, []byte("yyyyyyyy"))
		b.write(hx, 8, []byte("XX"))
		b.handleOp("CLOSE", fxpClose, hx)
		b.read(hy, 0, 10)
		b.handleOp("CLOSE", fxpClose, hy)
		hd := b.opendir("a", true)
		b.handleOp("READDIR", fxpReaddir, hd)
		b.handleOp("CLOSE", fxpClose, hd)
		b.opendir("missingdir", false)
		b.handleOp("READDIR", fxpReaddir, "77")
		b.write("77", 0, []byte("nothing"))
		b.handleOp("FSTAT", fxpFstat, "77")
		b.handleOp("CLOSE", fxpClose, "77")
		b.twoPath("RENAME", fxpRename, "a/x", "a/b/x")
		b.pathOp("REMOVE", fxpRemove, "a/y")
		b.pathOp("RMDIR", fxpRmdir, "a")
		b.ext("EXTENDED", "who@example.org", nil)
		b.setstat("a", 4, attrBlock(4, 0, 0, 0, 0o700, 0, 0))
		b.pathOp("LSTAT", fxpLstat, "a")
		b.pathOp("STAT", fxpStat, "a/b/x")
	})
	mk("attribute-blocks", func(b *c07Builder) {
		h := b.open("pre.txt", 0x12, 4, attrBlock(4, 0, 0, 0, 0o644, 0, 0), true) // WRITE|TRUNC of an existing file
		b.write(h, 0, []byte("new content"))
		b.handleOp("CLOSE", fxpClose, h)
		h = b.open("pre.txt", 1, 4, attrBlock(4, 0, 0, 0, 0o600, 0, 0), true) // READ with a permissions block
		b.read(h, 0, 50)
		b.handleOp("CLOSE", fxpClose, h)
		h = b.open("made.txt", 0x0a, 4, attrBlock(4, 0, 0, 0, 0o640, 0, 0), true) // CREAT|WRITE
		b.write(h, 0, []byte("0123456789"))
		b.add("FSETSTAT", func(id uint32) []byte {
			return rawFsetstat(id, h, 1|4|8, attrBlock(1|4|8, 3, 0, 0, 0o600, 1333333333, 1444444444))
		})
		b.handleOp("CLOSE", fxpClose, h)
		b.setstat("keep/k1", 1|4|8, attrBlock(1|4|8, 1, 0, 0, 0o640, 1555555555, 1666666666))
		b.pathOp("STAT", fxpStat, "keep/k1")
		b.pathOp("STAT", fxpStat, "made.txt")
		b.pathOp("STAT", fxpStat, "pre.txt")
	})
	mk("bigger-data-parallel-reads", func(b *c07Builder) {
		h := b.open("big.bin", 0x1a, 0, nil, true)
		b.write(h, 0, c07Pattern(600, 1))
		b.write(h, 600, c07Pattern(600, 2))
		b.write(h, 40000, c07Pattern(100, 3))
		b.handleOp("CLOSE", fxpClose, h)
		h = b.open("big.bin", 1, 0, nil, true)
		for i := 0; i < 8; i++ {
			b.read(h, uint64(i*150), 120)
		}
		b.read(h, 0, 65536)
		b.read(h, 39990, 500)
		b.handleOp("CLOSE", fxpClose, h)
		b.pathOp("STAT", fxpStat, "big.bin")
		b.setstat("big.bin", 1, attrBlock(1, 10, 0, 0, 0, 0, 0))
		b.pathOp("REMOVE", fxpRemove, "big.bin")
	})
	mk("excl-rename-chain", func(b *c07Builder) {
		b.add("MKDIR", func(id uint32) []byte { return rawMkdir(id, "m1") })
		b.add("MKDIR", func(id uint32) []byte { return rawMkdir(id, "m1/m2") })
		h := b.open("m1/m2/f", 0x2a, 0, nil, true)
		b.write(h, 3, []byte("sparse"))
		b.handleOp("CLOSE", fxpClose, h)
		b.open("m1/m2/f", 0x2a, 0, nil, false)
		b.twoPath("RENAME", fxpRename, "m1/m2", "m1/m3")
		hd := b.opendir("m1/m3", true)
		b.handleOp("READDIR", fxpReaddir, hd)
		b.handleOp("CLOSE", fxpClose, hd)
		b.twoPath("SYMLINK", fxpSymlink, "m1/m3/f", "m1/ln")
		b.pathOp("READLINK", fxpReadlink, "m1/ln")
		b.pathOp("STAT", fxpStat, "m1/ln")
		b.pathOp("RMDIR", fxpRmdir, "m1/m3")
		b.pathOp("REMOVE", fxpRemove, "m1/ln")
		b.pathOp("REMOVE", fxpRemove, "m1/m3/f")
		b.pathOp("RMDIR", fxpRmdir, "m1/m3")
		b.pathOp("RMDIR", fxpRmdir, "m1")
		b.pathOp("LSTAT", fxpLstat, "keep")
	})
	return out
}

func c07PopulateOS(dir string) {
	os.WriteFile(filepath.Join(dir, "pre.txt"), []byte("abcdefghijklmnopqrstuvwxyz"), 0o644)
	os.WriteFile(filepath.Join(dir, "sentinel"), []byte("s"), 0o600)
	os.Mkdir(filepath.Join(dir, "keep"), 0o755)
	os.WriteFile(filepath.Join(dir, "keep", "k1"), []byte("k1"), 0o644)
}

func (fs *c11FS) populateC07() {
	fs.put("/pre.txt", "abcdefghijklmnopqrstuvwxyz", 0o644)
	fs.put("/sentinel", "s", 0o600)
	fs.mkdir("/keep")
	fs.put("/keep/k1", "k1", 0o644)
}

// ---------------------------------------------------------------------------------------------------------------
// mutations

type c07Mut struct {
	kind  string // cut | len | type | garbage | attrcut
	frame int
	off   int
	val   uint64
}

func c07Garbage(seed int64) [][]byte {
	rng := rand.New(rand.NewSource(seed*7919 + 7))
	r1 := make([]byte, 12)
	rng.Read(r1)
	r1[0] |= 0x80 // a length beyond any limit
	r2 := make([]byte, 40)
	rng.Read(r2)
	r2[0], r2[1], r2[2], r2[3], r2[4] = 0, 0, 0, 36, byte(210+rng.Intn(40)) // a well-framed packet of an unassigned type
	return [][]byte{
		{0, 0, 0, 0},                                   // zero length
		{0xff, 0xff, 0xff, 0xff, 3, 0, 0, 0, 1},        // 4 GiB frame
		{0, 4, 0, 1, 3},                                // one byte over the limit
		{0, 0, 0, 2, fxpOpen, 0},                       // OPEN without an id
		{0, 0, 0, 9, fxpMkdir, 0, 0, 0, 9, 0, 0, 0, 8}, // MKDIR whose path is longer than the packet
		{0, 0, 0, 5, 250, 0, 0, 0, 1},                  // unassigned type
		{0, 0, 1},                                      // three stray bytes
		r1, r2,
	}
}

func c07Offsets(n, limit, lo int) []int {
	var out []int
	for o := lo; o < n; o++ {
		if n <= limit || o < 48 || o >= n-12 || o%61 == 0 {
			out = append(out, o)
		}
	}
	return out
}

var c07QuickTypes = []uint64{0, 1, 2, 4, 6, 9, 14, 17, 18, 21, 99, 100, 101, 105, 199, 200, 201, 255}

func c07Mutations(s *c07Session, thorough bool, nGarbage int) []c07Mut {
	limit := 160
	if thorough {
		limit = 1200
	}
	var out []c07Mut
	for f, fr := range s.frames {
		for _, o := range c07Offsets(len(fr), limit, 0) {
			out = append(out, c07Mut{"cut", f, o, 0})
		}
	}
	out = append(out, c07Mut{"cut", len(s.frames), 0, 0}) // the whole stream, then EOF
	for f, fr := range s.frames {
		for _, o := range c07Offsets(len(fr), limit, 4) {
			out = append(out, c07Mut{"cut", f, o, 1}) // truncated frame with a consistent length, rest of the stream follows
		}
	}
	for f, fr := range s.frames {
		for _, o := range c07Offsets(len(fr)-3, limit, 0) {
			old := binary.BigEndian.Uint32(fr[o:])
			seen := map[uint32]bool{old: true}
			for _, v := range []uint32{0, 1, old - 1, old + 1, 0x7fffffff, 0xffffffff} {
				if !seen[v] {
					seen[v] = true
					out = append(out, c07Mut{"len", f, o, uint64(v)})
				}
			}
		}
	}
	for f, fr := range s.frames {
		if thorough {
			for v := 0; v < 256; v++ {
				if byte(v) != fr[4] {
					out = append(out, c07Mut{"type", f, 4, uint64(v)})
				}
			}
		} else {
			for _, v := range c07QuickTypes {
				if byte(v) != fr[4] {
					out = append(out, c07Mut{"type", f, 4, v})
				}
			}
		}
	}
	for g := 0; g < nGarbage; g++ {
		out = append(out, c07Mut{"garbage", len(s.frames), 0, uint64(g)})
	}
	for f, fr := range s.frames { // attrcut: the attribute block of OPEN/SETSTAT/FSETSTAT loses its last off bytes
		for k := 1; k <= c07AttrBlockLen(fr[4], fr[5:]); k++ {
			out = append(out, c07Mut{"attrcut", f, k, 0})
		}
	}
	return out
}

func c07Apply(s *c07Session, m c07Mut, garbage [][]byte) []byte {
	var out []byte
	join := func(fr [][]byte) {
		for _, f := range fr {
			out = append(out, f...)
		}
	}
	switch m.kind {
	case "cut":
		if m.val == 0 {
			join(s.frames[:m.frame])
			if m.frame < len(s.frames) {
				out = append(out, s.frames[m.frame][:m.off]...)
			}
			return out
		}
		join(s.frames[:m.frame])
		t := append([]byte(nil), s.frames[m.frame][:m.off]...)
		binary.BigEndian.PutUint32(t, uint32(m.off-4))
		out = append(out, t...)
		join(s.frames[m.frame+1:])
	case "len":
		join(s.frames[:m.frame])
		t := append([]byte(nil), s.frames[m.frame]...)
		binary.BigEndian.PutUint32(t[m.off:], uint32(m.val))
		out = append(out, t...)
		join(s.frames[m.frame+1:])
	case "type":
		join(s.frames[:m.frame])
		t := append([]byte(nil), s.frames[m.frame]...)
		t[4] = byte(m.val)
		out = append(out, t...)
		join(s.frames[m.frame+1:])
	case "garbage":
		join(s.frames)
		out = append(out, garbage[m.val]...)
	case "attrcut":
		join(s.frames[:m.frame])
		fr := s.frames[m.frame]
		t := append([]byte(nil), fr[:len(fr)-m.off]...)
		binary.BigEndian.PutUint32(t, uint32(len(t)-4))
		out = append(out, t...)
		join(s.frames[m.frame+1:])
	}
	return out
}

const c07MaxMsg = 256 * 1024

// c07AttrBlock locates the attribute flags and block of an OPEN/SETSTAT/FSETSTAT payload (after the type byte).
func c07AttrBlock(typ byte, payload []byte) (flags uint32, block []byte, ok bool) {
	if typ != fxpOpen && typ != fxpSetstat && typ != fxpFsetstat || len(payload) < 4 {
		return 0, nil, false
	}
	_, b, ok := c07Str(payload[4:])
	if !ok {
		return 0, nil, false
	}
	if typ == fxpOpen {
		if len(b) < 4 {
			return 0, nil, false
		}
		b = b[4:]
	}
	if len(b) < 4 {
		return 0, nil, false
	}
	return binary.BigEndian.Uint32(b), b[4:], true
}

func c07AttrBlockLen(typ byte, payload []byte) int {
	_, b, _ := c07AttrBlock(typ, payload)
	return len(b)
}

// c07AttrShort: the packet passes makePacket (the block travels as raw bytes) but the block is shorter than its flags
// declare (size 8, uid/gid 8, permissions 4, times 8, extended count 4).
func c07AttrShort(typ byte, payload []byte) bool {
	fl, b, ok := c07AttrBlock(typ, payload)
	if !ok {
		return false
	}
	need := 0
	for _, f := range []struct {
		bit uint32
		n   int
	}{{1, 8}, {2, 8}, {4, 4}, {8, 8}, {0x80000000, 4}} {
		if fl&f.bit != 0 {
			need += f.n
		}
	}
	if len(b) < need {
		return true
	}
	if fl&0x80000000 != 0 {
		// the extended pairs the count announces must all be there (each a pair of length-prefixed strings)
		rest := b[need-4:]
		count := binary.BigEndian.Uint32(rest)
		rest = rest[4:]
		for i := uint32(0); i < count; i++ {
			for k := 0; k < 2; k++ {
				var ok bool
				if _, rest, ok = c07Str(rest); !ok {
					return true
				}
			}
			if i > 1<<16 {
				return true
			}
		}
	}
	return false
}

// c07Classify reads M the way a server does. g = number of leading frames identical to the reference. class:
// identical | eof (M is exactly the first g frames) | bad (the next thing is malformed: sub says how) | valid (the
// next frame differs from the reference but still decodes).
func c07Classify(s *c07Session, M []byte) (g int, class, sub string, typ byte) {
	pos := 0
	for {
		if pos == len(M) {
			if g == len(s.frames) {
				return g, "identical", "", 0
			}
			return g, "eof", "", 0
		}
		if len(M)-pos < 4 {
			return g, "bad", "cut-in-length", 0
		}
		l := int(binary.BigEndian.Uint32(M[pos:]))
		if l == 0 {
			return g, "bad", "zero-length", 0
		}
		if l > c07MaxMsg {
			return g, "bad", "too-long", 0
		}
		if pos+4+l > len(M) {
			t := byte(0)
			if pos+4 < len(M) {
				t = M[pos+4]
			}
			return g, "bad", "cut-in-body", t
		}
		fr := M[pos : pos+4+l]
		if g < len(s.frames) && bytes.Equal(fr, s.frames[g]) {
			g++
			pos += 4 + l
			continue
		}
		_, ek, _ := sftp.VerifDecA(fr[4], fr[5:])
		if ek == "ok" && c07AttrShort(fr[4], fr[5:]) {
			return g, "bad", "short-attrs", fr[4]
		}
		if ek == "ok" || ek == "unknownext" {
			return g, "valid", "", fr[4]
		}
		return g, "bad", "undecodable-" + ek, fr[4]
	}
}

var c07TypeNames = map[byte]string{1: "INIT", 3: "OPEN", 4: "CLOSE", 5: "READ", 6: "WRITE", 7: "LSTAT", 8: "FSTAT", 9: "SETSTAT", 10: "FSETSTAT", 11: "OPENDIR",
	12: "READDIR", 13: "REMOVE", 14: "MKDIR", 15: "RMDIR", 16: "REALPATH", 17: "STAT", 18: "RENAME", 19: "READLINK", 20: "SYMLINK", 200: "EXTENDED"}

func c07TypeName(t byte) string {
	if n, ok := c07TypeNames[t]; ok {
		return n
	}
	return "unassigned-type"
}

// ---------------------------------------------------------------------------------------------------------------
// response normalisation: times (and the date column of long names) differ from run to run on a real file system

func c07NormAttrs(b []byte) (norm, rest []byte, ok bool) {
	if len(b) < 4 {
		return nil, nil, false
	}
	fl := binary.BigEndian.Uint32(b)
	if fl&^0xf != 0 {
		return nil, nil, false
	}
	n := 4
	if fl&1 != 0 {
		n += 8
	}
	if fl&2 != 0 {
		n += 8
	}
	if fl&4 != 0 {
		n += 4
	}
	tpos := n
	if fl&8 != 0 {
		n += 8
	}
	if len(b) < n {
		return nil, nil, false
	}
	norm = append([]byte(nil), b[:n]...)
	if fl&8 != 0 {
		for i := tpos; i < tpos+8; i++ {
			norm[i] = 0
		}
	}
	return norm, b[n:], true
}

func c07Str(b []byte) (string, []byte, bool) {
	if len(b) < 4 {
		return "", nil, false
	}
	l := int(binary.BigEndian.Uint32(b))
	if l > len(b)-4 {
		return "", nil, false
	}
	return string(b[4 : 4+l]), b[4+l:], true
}

func c07Norm(fr *rawResp) string {
	switch fr.Typ {
	case fxpAttrs:
		if a, rest, ok := c07NormAttrs(fr.Body); ok && len(rest) == 0 {
			return fmt.Sprintf("ATTRS id=%d %x", fr.ID, a)
		}
	case fxpName:
		if len(fr.Body) < 4 {
			break
		}
		cnt := int(binary.BigEndian.Uint32(fr.Body))
		b := fr.Body[4:]
		var ents []string
		for i := 0; i < cnt; i++ {
			name, r1, ok1 := c07Str(b)
			long, r2, ok2 := c07Str(r1)
			if !ok1 || !ok2 {
				return fmt.Sprintf("raw %x", fr.Raw)
			}
			a, r3, ok3 := c07NormAttrs(r2)
			if !ok3 {
				return fmt.Sprintf("raw %x", fr.Raw)
			}
			if f := strings.Fields(long); len(f) >= 9 {
				f[5], f[6], f[7] = "-", "-", "-"
				long = strings.Join(f, " ")
			}
			ents = append(ents, fmt.Sprintf("%q %q %x", name, long, a))
			b = r3
		}
		if len(b) != 0 {
			break
		}
		sort.Strings(ents)
		return fmt.Sprintf("NAME id=%d %s", fr.ID, strings.Join(ents, " | "))
	}
	return fmt.Sprintf("raw %x", fr.Raw)
}

// ---------------------------------------------------------------------------------------------------------------
// one server instance inside the child

type c07Exec struct {
	srv    string
	work   string
	fs     *c11FS
	cli    *c11CliSide
	done   chan error
	baseG  int
	baseFD int
	oldGC  int

	baseGL   []string
	baseList string // C07_FDDEBUG only
}

// c07Goroutines: where the goroutines other than the caller are (function names only: stable text).
func c07Goroutines() []string {
	buf := make([]byte, 1<<20)
	buf = buf[:runtime.Stack(buf, true)]
	var out []string
	for i, g := range strings.Split(string(buf), "\n\n") {
		if i == 0 {
			continue // the calling goroutine
		}
		lines := strings.Split(g, "\n")
		if len(lines) < 2 {
			continue
		}
		state := ""
		if a, b := strings.Index(lines[0], "["), strings.Index(lines[0], "]"); a >= 0 && b > a {
			state = strings.SplitN(lines[0][a+1:b], ",", 2)[0]
		}
		var fns []string
		for _, l := range lines[1:] {
			if strings.HasPrefix(l, "\t") || strings.HasPrefix(l, "created by") {
				continue
			}
			if j := strings.LastIndex(l, "("); j > 0 {
				l = l[:j]
			}
			if strings.HasPrefix(l, "runtime.") || strings.HasPrefix(l, "sync.") || strings.HasPrefix(l, "internal/") {
				continue
			}
			fns = append(fns, l)
			if len(fns) == 2 {
				break
			}
		}
		out = append(out, state+" in "+strings.Join(fns, " < "))
	}
	sort.Strings(out)
	return out
}

func c07ListFDs() string {
	ents, _ := os.ReadDir("/proc/self/fd")
	var out []string
	for _, e := range ents {
		t, _ := os.Readlink("/proc/self/fd/" + e.Name())
		out = append(out, e.Name()+"="+t)
	}
	return strings.Join(out, ",")
}

func c07Start(srv string, alloc bool, work string) (*c07Exec, error) {
	e := &c07Exec{srv: srv, work: work}
	opt := pairOpt{alloc: alloc}
	if srv == "os" {
		os.RemoveAll(work)
		if err := os.Mkdir(work, 0o755); err != nil {
			return nil, err
		}
		c07PopulateOS(work)
		opt.workDir = work
	} else {
		e.fs = newC11FS()
		e.fs.populateC07()
		opt.reqServer, opt.handlers = true, e.fs.handlers(true)
	}
	e.oldGC = debug.SetGCPercent(-1) // a finalizer must not close a leaked descriptor for us
	e.baseG = runtime.NumGoroutine()
	e.baseGL = c07Goroutines()
	e.baseFD = c11CountFDs()
	if os.Getenv("C07_FDDEBUG") != "" {
		e.baseList = c07ListFDs()
	}
	var ss *c11SrvSide
	e.cli, ss = c11NewDuplex()
	var err error
	e.done, err = startServer(ss, opt)
	if err != nil {
		debug.SetGCPercent(e.oldGC)
		return nil, err
	}
	return e, nil
}

func (e *c07Exec) snapshot() map[string]string {
	if e.fs == nil {
		return c11SnapTree(e.work)
	}
	snap := e.fs.snapshot()
	e.fs.mu.Lock()
	defer e.fs.mu.Unlock()
	snap["#calls"] = strings.Join(e.fs.log, " ; ")
	for _, o := range e.fs.objs {
		ops := append([]string(nil), o.ops...)
		sort.Strings(ops)
		snap[fmt.Sprintf("#object%d", o.seq)] = o.kind + " " + o.path + " " + strings.Join(ops, ",")
	}
	return snap
}

// finish waits for Serve (10 s), drops the connection, lets the harness' own goroutines end (wait), and evaluates
// the release oracles.
func (e *c07Exec) finish(wait func()) (snap map[string]string, problems []string) {
	defer debug.SetGCPercent(e.oldGC)
	hang := false
	select {
	case <-e.done:
	case <-time.After(10 * time.Second):
		hang = true
	}
	e.cli.closeAll()
	if hang {
		problems = append(problems, "serve-hang: Serve did not return within 10s")
		select {
		case <-e.done:
		case <-time.After(3 * time.Second):
			return nil, problems
		}
	}
	if wait != nil {
		wait()
	}
	snap = e.snapshot()
	if e.fs != nil {
		e.fs.mu.Lock()
		for _, o := range e.fs.objs {
			if o.kind != "statlister" && o.nClose != 1 { // the stat listers are C11's finding, not repeated here
				problems = append(problems, fmt.Sprintf("handler-object-not-released: %s object closed %d times by the time Serve returned", o.kind, o.nClose))
				break
			}
		}
		e.fs.mu.Unlock()
	}
	deadline := time.Now().Add(3 * time.Second)
	for runtime.NumGoroutine() > e.baseG && time.Now().Before(deadline) {
		time.Sleep(time.Millisecond)
	}
	if n := runtime.NumGoroutine(); n > e.baseG {
		// NumGoroutine also counts goroutines the runtime starts lazily for itself (cleanup/finalizer runners); those do
		// not show in a stack dump. Only goroutines that are visible there and were not there before are a leak.
		var extra []string
		before := map[string]int{}
		for _, g := range e.baseGL {
			before[g]++
		}
		for _, g := range c07Goroutines() {
			if before[g] > 0 {
				before[g]--
			} else {
				extra = append(extra, g)
			}
		}
		if len(extra) > 0 {
			problems = append(problems, fmt.Sprintf("goroutine-leak: %d goroutines left behind after Serve returned: %s", len(extra), strings.Join(extra, "; ")))
		}
	}
	if e.srv == "os" {
		// (a count below the baseline means that a descriptor which existed before the server was started has gone: not
		// something the server can have leaked)
		if n := c11SettleFDs(e.baseFD); n > e.baseFD {
			problems = append(problems, fmt.Sprintf("fd-leak: %d descriptors more than before the session after Serve returned", n-e.baseFD))
			if e.baseList != "" {
				problems[len(problems)-1] += " [before: " + e.baseList + " after: " + c07ListFDs() + "]"
			}
		}
	}
	return snap, problems
}

// c07Sequential feeds frames one at a time, each answered before the next (reference runs).
func c07Sequential(srv string, alloc bool, work string, frames [][]byte) (resp []string, handles map[int]string, snap map[string]string, problems []string) {
	e, err := c07Start(srv, alloc, work)
	if err != nil {
		return nil, nil, nil, []string{"harness: " + err.Error()}
	}
	handles = map[int]string{}
	for i, f := range frames {
		r, err := e.cli.do(f)
		if err != nil {
			problems = append(problems, fmt.Sprintf("reference: request %d not answered", i))
			break
		}
		resp = append(resp, c07Norm(r))
		if h, ok := r.handle(); ok {
			handles[i] = h
		}
	}
	e.cli.closeWrite()
	e.cli.r.SetReadDeadline(time.Now().Add(10 * time.Second))
	if extra, _ := io.ReadAll(e.cli.r); len(extra) != 0 {
		problems = append(problems, "reference: unsolicited response bytes")
	}
	snap, p2 := e.finish(nil)
	return resp, handles, snap, append(problems, p2...)
}

// c07Stream serves one mutated stream. A writer goroutine sends the well-formed prefix one frame at a time, each after the
// response to the previous one has arrived (a real client cannot name a handle before it has been told it; READ/WRITE
// packets may legitimately overtake a preceding OPEN inside the server), then everything from the first changed byte on
// in one go, then closes its direction. Another goroutine drains the responses until the server hangs up.
func c07Stream(srv string, alloc bool, work string, prefix [][]byte, tail []byte) (resp []byte, snap map[string]string, problems []string) {
	e, err := c07Start(srv, alloc, work)
	if err != nil {
		return nil, nil, []string{"harness: " + err.Error()}
	}
	var mu sync.Mutex
	nresp := 0
	tick := make(chan struct{}, 1)
	drained := make(chan struct{})
	unanswered := -1
	var wg sync.WaitGroup
	wg.Add(2)
	go func() {
		defer wg.Done()
		defer close(drained)
		buf := make([]byte, 64<<10)
		parsed := 0
		for {
			n, err := e.cli.r.Read(buf)
			if n > 0 {
				mu.Lock()
				resp = append(resp, buf[:n]...)
				for len(resp)-parsed >= 4 {
					l := int(binary.BigEndian.Uint32(resp[parsed:]))
					if len(resp)-parsed < 4+l {
						break
					}
					parsed += 4 + l
					nresp++
				}
				mu.Unlock()
				select {
				case tick <- struct{}{}:
				default:
				}
			}
			if err != nil {
				return
			}
		}
	}()
	go func() {
		defer wg.Done()
		defer e.cli.w.Close()
		answered := func(i int) bool {
			mu.Lock()
			defer mu.Unlock()
			return nresp > i
		}
		for i, f := range prefix {
			e.cli.w.SetWriteDeadline(time.Now().Add(10 * time.Second))
			if _, err := e.cli.w.Write(f); err != nil {
				unanswered = i
				return
			}
			deadline := time.After(10 * time.Second)
			for !answered(i) {
				select {
				case <-tick:
				case <-drained:
					if !answered(i) {
						unanswered = i
						return
					}
				case <-deadline:
					unanswered = i
					return
				}
			}
		}
		e.cli.w.SetWriteDeadline(time.Now().Add(20 * time.Second))
		e.cli.w.Write(tail)
	}()
	snap, problems = e.finish(wg.Wait)
	if snap == nil { // hung: the helper goroutines end once the pipes are closed
		wg.Wait()
	}
	if unanswered >= 0 {
		problems = append([]string{fmt.Sprintf("no-response: well-formed request %d was not answered", unanswered)}, problems...)
	}
	return resp, snap, problems
}

// ---------------------------------------------------------------------------------------------------------------
// child process

type c07Ref struct {
	resp  []string
	snaps []map[string]string
	err   string
}

type c07Child struct {
	base     string
	corpus   map[string][]*c07Session
	garbage  [][]byte
	refs     map[string]*c07Ref
	refTries map[string]int
}

func c07ChildMain(args []string) {
	if len(args) < 2 {
		os.Exit(2)
	}
	seed, _ := strconv.ParseInt(args[1], 10, 64)
	st := &c07Child{base: args[0], garbage: c07Garbage(seed), refs: map[string]*c07Ref{}, refTries: map[string]int{},
		corpus: map[string][]*c07Session{"os": c07Corpus("os"), "req": c07Corpus("req")}}
	childLoop(st.handle)
}

func (st *c07Child) ref(srv string, alloc bool, si int) *c07Ref {
	key := fmt.Sprintf("%s/%v/%d", srv, alloc, si)
	if r, ok := st.refs[key]; ok {
		return r
	}
	s := st.corpus[srv][si]
	work := filepath.Join(st.base, "w")
	r := &c07Ref{snaps: make([]map[string]string, len(s.frames)+1)}
	for g := len(s.frames); g >= 0 && r.err == ""; g-- {
		resp, handles, snap, problems := c07Sequential(srv, alloc, work, s.frames[:g])
		switch {
		case len(problems) > 0:
			r.err = fmt.Sprintf("reference-failed: first %d frames of the valid session: %s", g, problems[0])
		case g == len(s.frames):
			r.resp = resp
			for i, want := range s.handles {
				if handles[i] != want {
					r.err = fmt.Sprintf("reference-failed: frame %d was expected to return handle %q, got %q", i, want, handles[i])
				}
			}
			for i := range handles {
				if _, ok := s.handles[i]; !ok {
					r.err = fmt.Sprintf("reference-failed: frame %d unexpectedly returned a handle", i)
				}
			}
		default:
			for i := range resp {
				if resp[i] != r.resp[i] {
					r.err = fmt.Sprintf("reference-unstable: response %d differs between two runs of the valid session", i)
					break
				}
			}
		}
		r.snaps[g] = snap
	}
	if r.err != "" && st.refTries[key] < 3 { // a failed reference is recomputed (it would poison every later case of this child)
		st.refTries[key]++
		return r
	}
	st.refs[key] = r
	return r
}

// handle: "<srv> <alloc 0|1> <sess> <kind> <frame> <off> <val>" -> "ok" | "FAIL <reason>"
func (st *c07Child) handle(req string) string {
	f := strings.Split(req, " ")
	burst := len(f) == 8 && f[7] == "burst"
	if len(f) != 7 && !burst {
		return "FAIL harness: bad request"
	}
	srv, alloc := f[0], f[1] == "1"
	si, _ := strconv.Atoi(f[2])
	fi, _ := strconv.Atoi(f[4])
	off, _ := strconv.Atoi(f[5])
	val, _ := strconv.ParseUint(f[6], 10, 64)
	if f[3] == "pipeopen" {
		return c07PipeOpen(srv, alloc, filepath.Join(st.base, "w"), fi, int(val))
	}
	if f[3] == "pipewrite" {
		return c07PipeWrite(srv, alloc, filepath.Join(st.base, "w"), fi)
	}
	s := st.corpus[srv][si]
	ref := st.ref(srv, alloc, si)
	if ref.err != "" {
		return "FAIL " + ref.err
	}
	M := c07Apply(s, c07Mut{f[3], fi, off, val}, st.garbage)
	g, class, sub, typ := c07Classify(s, M)
	shortAttrs := class == "bad" && sub == "short-attrs"
	if shortAttrs { // such a packet does not end the session: the stream is ended right after it to observe its effect alone
		end := 0
		for _, fr := range s.frames[:g] {
			end += len(fr)
		}
		M = M[:end+4+int(binary.BigEndian.Uint32(M[end:]))]
	}
	// every leading packet of M that frames and decodes is sent on its own and answered before the next one goes out
	// (for a mutant whose changed frame is still a valid request this includes that frame and what follows it)
	var paced [][]byte
	plen := 0
	for plen+4 <= len(M) {
		l := int(binary.BigEndian.Uint32(M[plen:]))
		if l == 0 || l > c07MaxMsg || plen+4+l > len(M) {
			break
		}
		fr := M[plen : plen+4+l]
		if _, ek, _ := sftp.VerifDecA(fr[4], fr[5:]); ek != "ok" && ek != "unknownext" {
			break
		}
		paced = append(paced, fr)
		plen += 4 + l
	}
	if burst { // the whole stream at once: response contents and the final state may legitimately depend on scheduling -
		// the ORDER of the responses may not: they carry the ids of the well-formed requests, in arrival order, and there
		// are never more of them than well-formed requests
		resp, _, problems := c07Stream(srv, alloc, filepath.Join(st.base, "w"), nil, M)
		if len(problems) > 0 {
			return "FAIL " + problems[0]
		}
		frames, _ := splitFrames(resp)
		for i, fr := range frames {
			if i >= len(paced) {
				if class != "valid" {
					return fmt.Sprintf("FAIL response-not-prefix: %d responses to a stream sent in one piece that holds only %d well-formed requests (%s)", len(frames), len(paced), sub)
				}
				break
			}
			rq := paced[i]
			if rq[4] == fxpInit {
				if fr.Typ != fxpVersion {
					return fmt.Sprintf("FAIL response-order: the first response to a stream sent in one piece is of type %d, not VERSION", fr.Typ)
				}
				continue
			}
			if len(rq) >= 9 && fr.ID != binary.BigEndian.Uint32(rq[5:9]) {
				return fmt.Sprintf("FAIL response-order: response %d to a stream sent in one piece carries id %d, the request in that place (%s) has id %d", i, fr.ID, c07TypeName(rq[4]), binary.BigEndian.Uint32(rq[5:9]))
			}
		}
		return "ok"
	}
	resp, snap, problems := c07Stream(srv, alloc, filepath.Join(st.base, "w"), paced, M[plen:])
	var fails []string
	// 1. responses: a prefix of the reference responses to the good prefix
	frames, rest := splitFrames(resp)
	limit := g
	if class == "valid" && len(frames) < limit {
		limit = len(frames)
	}
	for i, fr := range frames {
		if class == "valid" && i >= limit {
			break
		}
		if shortAttrs && i == g {
			if code, isStatus := fr.statusCode(); !isStatus || code == 0 {
				fails = append(fails, fmt.Sprintf("malformed-attrs-acted-upon: %s packet whose attribute block is shorter than its flags declare was answered with type %d code %d", c07TypeName(typ), fr.Typ, code))
				break
			}
			continue
		}
		if i >= g {
			fails = append(fails, fmt.Sprintf("response-not-prefix: %d responses were sent but only %d well-formed requests precede the malformed data (%s)", len(frames), g, sub))
			break
		}
		if c07Norm(fr) != ref.resp[i] {
			fails = append(fails, fmt.Sprintf("response-mismatch: response %d to the well-formed prefix differs from the reference", i))
			break
		}
	}
	if class != "valid" && len(frames) == g && len(rest) > 0 {
		fails = append(fails, fmt.Sprintf("response-not-prefix: %d stray bytes after the responses to the %d well-formed requests", len(rest), g))
	}
	// 2. backend: exactly as if the stream had stopped before the malformed packet
	if snap != nil && class != "valid" {
		if d := c11SnapDiff(ref.snaps[g], snap); d != "" {
			if shortAttrs {
				if nc := c11SnapDiff(c07NoCalls(ref.snaps[g]), c07NoCalls(snap)); nc != "" {
					fails = append(fails, fmt.Sprintf("malformed-attrs-acted-upon: %s packet whose attribute block is shorter than its flags declare was acted upon: %s", c07TypeName(typ), nc))
				} else {
					fails = append(fails, fmt.Sprintf("malformed-attrs-reached-handler: %s packet whose attribute block is shorter than its flags declare was handed to a handler (which refused it)", c07TypeName(typ)))
				}
			} else if class == "bad" {
				fails = append(fails, fmt.Sprintf("malformed-acted-upon: %s packet (%s) was acted upon: backend differs from the state after the %d well-formed requests: %s", c07TypeName(typ), sub, g, d))
			} else {
				fails = append(fails, fmt.Sprintf("state-mismatch: backend after the first %d requests differs from the sequential reference: %s", g, d))
			}
		}
	}
	fails = append(fails, problems...)
	if len(fails) > 0 {
		return "FAIL " + fails[0]
	}
	return "ok"
}

func c07NoCalls(snap map[string]string) map[string]string {
	out := map[string]string{}
	for k, v := range snap {
		if k != "#calls" {
			out[k] = v
		}
	}
	return out
}

// ---------------------------------------------------------------------------------------------------------------
// parent

type c07Proc struct {
	cmd    *exec.Cmd
	in     io.WriteCloser
	lines  chan string
	stderr *bytes.Buffer
	errEnd chan struct{}
}

func c07StartProc(base string, seed int64) (*c07Proc, error) {
	self, err := os.Executable()
	if err != nil {
		return nil, err
	}
	cmd := exec.Command("sh", "-c", fmt.Sprintf("ulimit -v 8000000; exec %q child c07 %q %d", self, base, seed))
	in, _ := cmd.StdinPipe()
	outp, _ := cmd.StdoutPipe()
	errp, _ := cmd.StderrPipe()
	if err := cmd.Start(); err != nil {
		return nil, err
	}
	p := &c07Proc{cmd: cmd, in: in, lines: make(chan string, 1), stderr: &bytes.Buffer{}, errEnd: make(chan struct{})}
	go func() {
		r := bufio.NewReaderSize(outp, 1<<16)
		for {
			l, err := r.ReadString('\n')
			if err != nil {
				close(p.lines)
				return
			}
			p.lines <- strings.TrimRight(l, "\n")
		}
	}()
	go func() {
		io.Copy(p.stderr, io.LimitReader(errp, 1<<20))
		io.Copy(io.Discard, errp)
		close(p.errEnd)
	}()
	return p, nil
}

// ask returns the answer, or died=true with the reason derived from the child's stderr.
func (p *c07Proc) ask(req string) (ans string, died bool) {
	io.WriteString(p.in, req+"\n")
	select {
	case l, ok := <-p.lines:
		if ok {
			return l, false
		}
		select {
		case <-p.errEnd:
		case <-time.After(5 * time.Second):
		}
		p.cmd.Wait()
		return c07CrashReason(p.stderr.String()), true
	case <-time.After(90 * time.Second):
		p.kill()
		return "child-timeout: no verdict within 90s", true
	}
}

func (p *c07Proc) kill() {
	p.in.Close()
	p.cmd.Process.Kill()
	p.cmd.Wait()
}

// c07CrashReason: stable text from a Go crash dump (no addresses, no line numbers).
func c07CrashReason(dump string) string {
	lines := strings.Split(dump, "\n")
	msg, fn := "", ""
	for i, l := range lines {
		if msg == "" && (strings.HasPrefix(l, "panic: ") || strings.HasPrefix(l, "fatal error: ")) {
			msg = l
			if j := strings.Index(msg, " [recovered]"); j > 0 {
				msg = msg[:j]
			}
			for _, l2 := range lines[i+1:] {
				if strings.HasPrefix(l2, "github.com/pkg/sftp") {
					fn = l2
					if j := strings.LastIndex(fn, "("); j > 0 {
						fn = fn[:j]
					}
					break
				}
			}
			break
		}
	}
	switch {
	case strings.HasPrefix(msg, "panic: "):
		return "server-panic: " + strings.TrimPrefix(msg, "panic: ") + " in " + fn
	case msg != "":
		return "server-fatal: " + strings.TrimPrefix(msg, "fatal error: ")
	}
	return "server-died: the process serving the stream exited without a Go crash dump"
}

type c07Case struct {
	srv   string
	alloc bool
	sess  int
	m     c07Mut
	g     int
	class string
	sub   string
	ans   string
	died  bool
	burst bool // the whole stream in one Write (order, crash, hang and leak oracles only)
}

func runC07(c *Ctx) {
	c.Rule("corpus of valid, sequentially-deterministic raw sessions (INIT, MKDIR, OPEN, WRITE, CLOSE, STAT, LSTAT, FSTAT, OPENDIR, READDIR, RENAME, REMOVE, RMDIR, SETSTAT, FSETSTAT, SYMLINK, READLINK, REALPATH, " +
		"posix-rename, hardlink, unknown extended requests; 20-26 frames each) against a temp dir (os server) and an own in-memory backend (request server), allocator off and on; mutations: EOF at every byte offset (mut=cut val=0), " +
		"every frame truncated at every offset with its length field adjusted and the rest of the stream following (mut=cut val=1), every 4-byte window of every frame <- 0,1,n-1,n+1,2^31-1,2^32-1 (mut=len), " +
		"every type byte replaced (mut=type; quick: 18 values), garbage appended (mut=garbage), the attribute block of every OPEN/SETSTAT/FSETSTAT shortened by 1..its length with the frame length adjusted (mut=attrcut, off=bytes removed); " +
		"a frame that passes makePacket but whose attribute block is shorter than its flags declare counts as malformed (short-attrs): the stream is ended right after it, it must be answered with a failure status and leave the backend untouched; frames longer than 160 (thorough 1200) bytes are sampled (first 48, last 12, every 61st offset). " +
		"Each stream is served in a child process: the leading packets that frame and decode are sent one at a time, each answered before the next, the rest in one write, then EOF; oracle: no crash, Serve returns in 10s, responses are a prefix of the reference responses to the identical leading frames, backend equals the state after those frames, " +
		"no goroutine, descriptor or handler object left. mut=pipeopen: INIT, then frame= OPEN/OPENDIR requests in one write without waiting for replies, then the end (val: 0 EOF, 1 cut frame, 2 zero length, 3 undecodable OPEN): only the crash/hang/leak oracles. Mutants whose first changed frame still decodes are different valid requests: only the crash/hang/leak oracles apply to them (stat class_valid). " +
		"non-trivial = the first thing that differs from the valid session is malformed (does not frame or does not decode)")
	root, err := os.MkdirTemp("", "vh-c07-")
	if err != nil {
		c.Diag("mktemp: %v", err)
		return
	}
	defer os.RemoveAll(root)
	nSess := 4
	if c.Thorough() {
		nSess = 6
	}
	garbage := c07Garbage(c.Seed)
	corpus := map[string][]*c07Session{"os": c07Corpus("os"), "req": c07Corpus("req")}
	var cases []*c07Case
	nMut := 0
	for _, srv := range []string{"os", "req"} {
		if only := os.Getenv("C07_ONLY"); only != "" && only != srv {
			continue
		}
		for _, alloc := range []bool{false, true} {
			for si := 0; si < nSess; si++ {
				s := corpus[srv][si]
				for _, m := range c07Mutations(s, c.Thorough(), len(garbage)) {
					cs := &c07Case{srv: srv, alloc: alloc, sess: si, m: m}
					cs.g, cs.class, cs.sub, _ = c07Classify(s, c07Apply(s, m, garbage))
					cases = append(cases, cs)
					// once more in one piece: every frame whose type byte became EXTENDED (what follows is then mostly an unknown
					// extension, pipelined behind requests that are still being served), and a sample of everything else
					if nMut++; (m.kind == "type" && m.val == 200) || nMut%24 == 0 {
						b := *cs
						b.burst = true
						cases = append(cases, &b)
					}
				}
			}
			for _, m := range c07PipeMutations(c.Thorough()) {
				cases = append(cases, &c07Case{srv: srv, alloc: alloc, sess: 0, m: m, g: 1, class: "bad", sub: "pipelined-opens-then-end"})
			}
		}
	}
	for si := 0; si < nSess; si++ {
		total := 0
		for _, f := range corpus["os"][si].frames {
			total += len(f)
		}
		c.Diag("c07 session %d %s: %d frames, %d bytes: %s", si, corpus["os"][si].name, len(corpus["os"][si].frames), total, strings.Join(corpus["os"][si].kinds, ","))
	}
	burst := len(c.Args) > 0 && c.Args[0] == "burst" // diagnostic mode: every stream in one go, only the crash/hang/leak oracles
	workers := runtime.NumCPU() - 2
	if workers > 14 {
		workers = 14
	}
	if workers < 2 {
		workers = 2
	}
	var next int
	var mu sync.Mutex
	var wg sync.WaitGroup
	crashes := 0
	for w := 0; w < workers; w++ {
		wg.Add(1)
		go func(w int) {
			defer wg.Done()
			base := filepath.Join(root, fmt.Sprintf("child%d", w))
			os.Mkdir(base, 0o755)
			var p *c07Proc
			defer func() {
				if p != nil {
					p.kill()
				}
			}()
			for {
				mu.Lock()
				i := next
				next++
				mu.Unlock()
				if i >= len(cases) {
					return
				}
				cs := cases[i]
				if p == nil {
					var err error
					if p, err = c07StartProc(base, c.Seed); err != nil {
						cs.ans, cs.died = "harness: cannot start child: "+err.Error(), true
						p = nil
						continue
					}
				}
				a := 0
				if cs.alloc {
					a = 1
				}
				line := fmt.Sprintf("%s %d %d %s %d %d %d", cs.srv, a, cs.sess, cs.m.kind, cs.m.frame, cs.m.off, cs.m.val)
				if burst || cs.burst {
					line += " burst"
				}
				cs.ans, cs.died = p.ask(line)
				if cs.died && os.Getenv("C07_DUMP") != "" {
					c.Diag("dump %s: %s", line, p.stderr.String())
				}
				if cs.died {
					mu.Lock()
					crashes++
					mu.Unlock()
					p.kill()
					p = nil
				}
			}
		}(w)
	}
	wg.Wait()
	failCount := map[string]int{}
	for _, cs := range cases {
		n := c.Case("mut", kvs("srv", cs.srv), kvb("alloc", cs.alloc), kvi("sess", cs.sess), kvs("mut", cs.m.kind), kvi("frame", cs.m.frame), kvi("off", cs.m.off), kvx("val", cs.m.val), kvb("burst", cs.burst))
		if cs.burst {
			c.Stat("streams_sent_in_one_piece")
		}
		if cs.class == "bad" {
			c.NT(n)
			c.Stat("malformed_" + cs.sub)
		}
		c.Stat("class_" + cs.class)
		c.Stat("mut_" + cs.m.kind)
		c.Stat(fmt.Sprintf("goodprefix_%02d-%02d", cs.g/5*5, cs.g/5*5+4))
		switch {
		case cs.died:
			c.Oracle(n, false, cs.ans)
			failCount[strings.SplitN(cs.ans, ":", 2)[0]+"/"+cs.srv]++
		case cs.ans == "ok":
			c.Oracle(n, true, "")
		default:
			reason := strings.TrimPrefix(cs.ans, "FAIL ")
			c.Oracle(n, false, reason)
			failCount[strings.SplitN(reason, ":", 2)[0]+"/"+cs.srv]++
		}
	}
	keys := make([]string, 0, len(failCount))
	for k := range failCount {
		keys = append(keys, k)
	}
	sort.Strings(keys)
	for _, k := range keys {
		c.Diag("c07 failures %s: %d", k, failCount[k])
	}
	c.Diag("c07 child processes lost: %d", crashes)
}
