package main

import (
	"fmt"
	"math/rand"
	"net"
	"os"
	"strings"
	"time"
)

// c14 "hangup": the same pipelines (READ|WRITE)^k CLOSE on the os-backed server, but the client ends its sending direction
// right after the last frame, without waiting for any outstanding reply. The requests were all received before the end
// of the stream, so they all precede their CLOSE: every write must have reached the file by the time Serve returns, and
// no request that was answered may have been answered with a failure. (Replies still queued when the stream ends may be
// dropped by the pinned shutdown, known finding F10 of C02: missing replies are not judged here.)
var c14HangCfgs = []c02Cfg{{false, false, 0}, {false, true, 0}, {false, true, 262144}}

func init() {
	childEntries["c14hang"] = func([]string) {
		childLoop(func(req string) string {
			var seed int64
			var nh, kmax, ci int
			if _, err := fmt.Sscanf(req, "%d %d %d %d", &seed, &nh, &kmax, &ci); err != nil || ci < 0 || ci >= len(c14HangCfgs) {
				return "FAIL 0 harness: bad request"
			}
			ok, why, total := c14HangupRun(seed, nh, kmax, c14HangCfgs[ci])
			if ok {
				return fmt.Sprintf("ok %d", total)
			}
			return fmt.Sprintf("FAIL %d %s", total, strings.ReplaceAll(why, "\n", " "))
		})
	}
}

// c14Hangups runs n hangup cases in a child process (a server that crashes must not take the family down with it).
func c14Hangups(c *Ctx, n int) {
	var ch *childProc
	defer func() {
		if ch != nil {
			ch.kill()
		}
	}()
	for i := 0; i < n; i++ {
		seed := c.Rng.Int63()
		nh, kmax, ci := 1+int(seed>>4)%3, []int{4, 12}[int(seed>>12)%2], i%3
		cfg := c14HangCfgs[ci]
		cn := c.Case("hangup", kvs("srv", "os"), kvb("alloc", cfg.alloc), kvx("maxtx", uint64(cfg.maxTx)), kvx("seed", uint64(seed)), kvi("handles", nh), kvi("kmax", kmax))
		if ch == nil {
			var err error
			if ch, err = startChild("c14hang", 8<<20); err != nil {
				c.Diag("c14 hangup: cannot start child: %v", err)
				return
			}
		}
		ans, alive := ch.ask(fmt.Sprintf("%d %d %d %d", seed, nh, kmax, ci), 60*time.Second)
		c.Stat("cases_os_hangup")
		if !alive {
			ch.kill()
			ch = nil
			c.NT(cn)
			c.Oracle(cn, false, "server-crash-or-hang: the process serving a pipeline that ends with a hangup died or did not finish within 60 s")
			continue
		}
		f := strings.SplitN(ans, " ", 3)
		total := 0
		if len(f) >= 2 {
			fmt.Sscanf(f[1], "%d", &total)
		}
		if total >= 2 {
			c.NT(cn)
		}
		if f[0] == "ok" {
			c.Oracle(cn, true, "")
		} else {
			why := "harness: bad answer"
			if len(f) == 3 {
				why = f[2]
			}
			c.Oracle(cn, false, why)
		}
	}
}

func c14HangupRun(seed int64, nh, kmax int, cfg c02Cfg) (ok bool, why string, total int) {
	p := c14Build(rand.New(rand.NewSource(seed)), nh, kmax, true, false, cfg.maxTx)
	for _, h := range p.hs {
		total += h.nRW
	}
	dir, err := os.MkdirTemp("", "vh-c14h-")
	if err != nil {
		return false, "harness: mktemp: " + err.Error(), total
	}
	defer os.RemoveAll(dir)
	pgPopulateDir(dir)
	for _, h := range p.hs {
		if h.mode == "rw" {
			os.WriteFile(dir+"/"+h.wire, pgPatBytes(h.fileNo, 0, c14Pre), 0o644)
		}
	}
	in, err := pgStart(pgInstOpt{alloc: cfg.alloc, maxTx: cfg.maxTx, workDir: dir, sock: true})
	if err != nil {
		return false, "harness: setup: " + err.Error(), total
	}
	ok, why = true, ""
	deadline := time.Now().Add(10 * time.Second)
	for i, rq := range p.reqs {
		if rq.sync { // the handles must be known before they can be used
			for in.col.count() < i && time.Now().Before(deadline) {
				ch := in.hub.wait()
				if in.col.count() >= i {
					break
				}
				select {
				case <-ch:
				case <-time.After(50 * time.Millisecond):
				}
			}
			if in.col.count() < i {
				ok, why = false, fmt.Sprintf("no-response: only %d replies before request %d could be sent", in.col.count(), i)
				break
			}
		}
		in.cli.SetWriteDeadline(deadline)
		if _, err := in.cli.Write(rq.frame); err != nil {
			ok, why = false, "harness: write failed: "+err.Error()
			break
		}
	}
	if ok {
		in.cli.(*net.UnixConn).CloseWrite()
		select {
		case <-in.done:
		case <-time.After(10 * time.Second):
			ok, why = false, "server-hang: Serve did not return within 10 s of the end of the request stream"
		}
	}
	if ok {
		select {
		case <-in.col.eof:
		case <-time.After(5 * time.Second):
		}
		for i, rs := range in.col.all() {
			if i >= len(p.reqs) {
				ok, why = false, "extra-response: more replies than requests"
				break
			}
			rq := p.reqs[i]
			code, isStatus := rs.statusCode()
			if isStatus && code != 0 && (rq.typ == fxpWrite || rq.typ == fxpRead || rq.typ == fxpClose) {
				ok, why = false, fmt.Sprintf("io-before-close-failed: %s on handle %d (received before the stream ended) answered STATUS %d", pgTypeName(rq.typ), p.hOf[i]+1, code)
				break
			}
		}
	}
	if ok {
		ok, why = c14Content(p, func(w string) ([]byte, bool) { b, err := os.ReadFile(dir + "/" + w); return b, err == nil })
		if !ok {
			why = "after-hangup " + why
		}
	}
	in.cli.Close()
	return ok, why, total
}
