module verifharness

go 1.25.0

require github.com/pkg/sftp v0.0.0

require (
	github.com/kr/fs v0.1.0 // indirect
	golang.org/x/crypto v0.54.0 // indirect
)

replace github.com/pkg/sftp => /repo
