package main

// Model ties for two table/loop models that the big oracle families do not compare with Coq:
//   c07m: the receive loop (Srv/ServeLoop.v serve) - which requests of a mutated stream are executed, how Serve returns
//   c11m: the handle table (Srv/Handles.v hstep)   - issued handles, per-request failure, close / transfer-error counts

import (
	"bytes"
	"encoding/binary"
	"fmt"
	"io"
	"os"
	"path/filepath"
	"sort"
	"strings"
	"sync"

	"github.com/pkg/sftp"
)

func init() {
	register("c07m", runC07m)
	register("c11m", runC11m)
}

type bufConn struct {
	r io.Reader
	w bytes.Buffer
}

func (b *bufConn) Read(p []byte) (int, error)  { return b.r.Read(p) }
func (b *bufConn) Write(p []byte) (int, error) { return b.w.Write(p) }
func (b *bufConn) Close() error                { return nil }

func runC07m(c *Ctx) {
	c.Rule("os-backed Serve fed from a byte reader: INIT + k MKDIR frames (+ STAT, unknown extended) in a temp dir, then every cut offset, every frame's type byte <- 18 values, every frame's length field <- 6 values; " +
		"observable = which directories exist afterwards and whether Serve returned nil; non-trivial = mutated stream")
	root, err := os.MkdirTemp("", "vh-c07m-")
	if err != nil {
		return
	}
	defer os.RemoveAll(root)
	run := 0
	placeholder := root + "/rXXXX"
	badInit := false // set for streams whose INIT is malformed: the oracle then demands that nothing was carried out
	one := func(stream []byte, names []string, nt bool) {
		run++
		dir := filepath.Join(root, fmt.Sprintf("r%04d", run))
		os.Mkdir(dir, 0o755)
		// the frames name directories under a fixed-length placeholder; patch the run directory in (same length)
		s := bytes.ReplaceAll(stream, []byte(placeholder), []byte(dir))
		conn := &bufConn{r: bytes.NewReader(s)}
		srv, _ := sftp.NewServer(conn)
		done := make(chan error, 1)
		go func() { done <- srv.Serve() }()
		rerr := <-done
		var made []string
		for _, n := range names {
			if _, err := os.Stat(filepath.Join(dir, n)); err == nil {
				made = append(made, n)
			}
		}
		sort.Strings(made)
		n := c.Case("servem", kvh("s", s), kvh("dir", []byte(dir)))
		if nt {
			c.NT(n)
		}
		m := strings.Join(made, ",")
		if m == "" {
			m = "-"
		}
		c.Obs(n, kvs("made", m), kvb("nil", rerr == nil))
		if badInit && len(made) > 0 {
			c.Oracle(n, false, fmt.Sprintf("malformed-init: the INIT frame of this stream does not decode (bytes after the version that are not whole extension pairs), yet the requests behind it were carried out (%s)", m))
		} else {
			c.Oracle(n, true, "")
		}
		os.RemoveAll(dir)
	}
	placeholderDir := root + "/rXXXX" // replaced per run by a real directory name of the same length
	for _, k := range []int{1, 3} {
		var frames [][]byte
		var names []string
		frames = append(frames, rawInit())
		for i := 0; i < k; i++ {
			nme := fmt.Sprintf("d%d", i)
			names = append(names, nme)
			frames = append(frames, rawMkdir(uint32(10+i), placeholderDir+"/"+nme))
			if i == 0 {
				frames = append(frames, rawPathOp(fxpStat, 50, placeholderDir), rawExtended(51, "nope@example.com", []byte("xy")))
			}
		}
		whole := bytes.Join(frames, nil)
		one(whole, names, false)
		for cut := 0; cut < len(whole); cut++ {
			one(whole[:cut], names, true)
		}
		off := 0
		for _, fr := range frames {
			for _, t := range []byte{0, 1, 2, 3, 14, 15, 21, 99, 100, 101, 102, 105, 199, 200, 201, 254, 255, 17} {
				m := append([]byte(nil), whole...)
				m[off+4] = t
				one(m, names, true)
			}
			l := len(fr) - 4
			for _, v := range []uint32{0, 1, uint32(l - 1), uint32(l + 1), 0x7fffffff, 0xffffffff, 262144, 262145} {
				m := append([]byte(nil), whole...)
				m[off], m[off+1], m[off+2], m[off+3] = byte(v>>24), byte(v>>16), byte(v>>8), byte(v)
				one(m, names, true)
			}
			off += len(fr)
		}
		// pad: every frame in turn carries 1..9 bytes after its last field, its length field saying so (an INIT whose rest is not
		// a whole number of extension pairs is malformed and ends the session before anything is done; bytes after the last
		// field of a request are not looked at); and INIT frames with one and two well-formed extension pairs, alone and followed
		// by 1..7 bytes that are not a pair
		pad := func(fr []byte, extra []byte) []byte {
			t := append(append([]byte(nil), fr...), extra...)
			binary.BigEndian.PutUint32(t, uint32(len(t)-4))
			return t
		}
		junk := []byte{0, 0, 0, 1, 0x41, 0xff, 0, 0, 0}
		for fi := range frames {
			for kk := 1; kk <= len(junk); kk++ {
				for _, ex := range [][]byte{junk[:kk], bytes.Repeat([]byte{0}, kk), junk[len(junk)-kk:]} {
					var m []byte
					for j, fr := range frames {
						if j == fi {
							badInit = fi == 0 && !wholePairs(ex)
							m = append(m, pad(fr, ex)...)
						} else {
							m = append(m, fr...)
						}
					}
					one(m, names, true)
					badInit = false
				}
			}
		}
		pair := func(a, b string) []byte {
			var o []byte
			o = binary.BigEndian.AppendUint32(o, uint32(len(a)))
			o = append(o, a...)
			o = binary.BigEndian.AppendUint32(o, uint32(len(b)))
			return append(o, b...)
		}
		for _, pairs := range [][]byte{pair("ext@example.com", "1"), append(pair("a", ""), pair("", "b")...)} {
			for kk := 0; kk <= 7; kk++ {
				m := pad(frames[0], append(append([]byte(nil), pairs...), junk[:kk]...))
				for _, fr := range frames[1:] {
					m = append(m, fr...)
				}
				badInit = !wholePairs(junk[:kk])
				one(m, names, true)
				badInit = false
			}
		}
	}
}

// wholePairs: b is a sequence of whole extension pairs (two length-prefixed strings each), possibly empty.
func wholePairs(b []byte) bool {
	for len(b) > 0 {
		for i := 0; i < 2; i++ {
			if len(b) < 4 {
				return false
			}
			l := int(binary.BigEndian.Uint32(b))
			if l > len(b)-4 {
				return false
			}
			b = b[4+l:]
		}
	}
	return true
}

// ---- c11m ----
type cntObj struct {
	mu                  sync.Mutex
	closed, xfer, calls int
}

func (o *cntObj) ReadAt(b []byte, off int64) (int, error) {
	o.mu.Lock()
	o.calls++
	o.mu.Unlock()
	return 0, io.EOF
}
func (o *cntObj) WriteAt(b []byte, off int64) (int, error) {
	o.mu.Lock()
	o.calls++
	o.mu.Unlock()
	return len(b), nil
}
func (o *cntObj) Close() error            { o.mu.Lock(); o.closed++; o.mu.Unlock(); return nil }
func (o *cntObj) TransferError(err error) { o.mu.Lock(); o.xfer++; o.mu.Unlock() }

type cntHandlers struct {
	mu   sync.Mutex
	objs []*cntObj
}

func (h *cntHandlers) Fileread(r *sftp.Request) (io.ReaderAt, error) {
	if strings.Contains(r.Filepath, "fail") {
		return nil, os.ErrNotExist
	}
	o := &cntObj{}
	h.mu.Lock()
	h.objs = append(h.objs, o)
	h.mu.Unlock()
	return o, nil
}
func (h *cntHandlers) Filewrite(r *sftp.Request) (io.WriterAt, error) {
	return nil, os.ErrPermission
}
func (h *cntHandlers) Filecmd(r *sftp.Request) error { return nil }
func (h *cntHandlers) Filelist(r *sftp.Request) (sftp.ListerAt, error) {
	return oneLister{memInfo{"x", 1}}, nil
}

func runC11m(c *Ctx) {
	c.Rule("request server, sequential raw sessions over {open ok, open failing, READ on handle h, CLOSE h} with h among issued, closed and never-issued numbers, ended by closing the connection; " +
		"observable = issued handles, per-request failure, and Close/TransferError counts of every object; non-trivial = session with a use or close of a stale handle")
	nsess := 300
	if c.Thorough() {
		nsess = 8000
	}
	for s := 0; s < nsess; s++ {
		h := &cntHandlers{}
		rs, err := newRawSession(pairOpt{reqServer: true, handlers: sftp.Handlers{FileGet: h, FilePut: h, FileCmd: h, FileList: h}})
		if err != nil {
			c.Diag("session: %v", err)
			continue
		}
		nops := 3 + c.Rng.Intn(8)
		var ops, fails, issued []string
		stale := false
		opened := 0
		for i := 0; i < nops; i++ {
			id := uint32(100 + i)
			var resp *rawResp
			var err error
			switch k := c.Rng.Intn(10); {
			case k < 3:
				ops = append(ops, "o")
				resp, err = rs.do(rawOpen(id, "/file", 1, 0, nil))
				opened++
			case k < 4:
				ops = append(ops, "f")
				resp, err = rs.do(rawOpen(id, "/fail", 1, 0, nil))
				opened++
			case k < 7:
				hn := 1 + c.Rng.Intn(opened+2)
				ops = append(ops, fmt.Sprintf("u%d", hn))
				resp, err = rs.do(rawRead(id, fmt.Sprint(hn), 0, 4))
			default:
				hn := 1 + c.Rng.Intn(opened+2)
				ops = append(ops, fmt.Sprintf("c%d", hn))
				resp, err = rs.do(rawHandleOp(fxpClose, id, fmt.Sprint(hn)))
			}
			if err != nil {
				fails = append(fails, "?")
				continue
			}
			if hs, ok := resp.handle(); ok {
				issued = append(issued, hs)
				fails = append(fails, "0")
			} else if code, ok := resp.statusCode(); ok && code == 0 {
				fails = append(fails, "0")
			} else if code, ok := resp.statusCode(); ok && code == 1 {
				fails = append(fails, "0") // READ answered EOF by the object: the handle was live
			} else {
				fails = append(fails, "1")
				if strings.HasPrefix(ops[len(ops)-1], "u") || strings.HasPrefix(ops[len(ops)-1], "c") {
					stale = true
				}
			}
		}
		rs.Close()
		var counts []string
		h.mu.Lock()
		for _, o := range h.objs {
			o.mu.Lock()
			counts = append(counts, fmt.Sprintf("%d:%d", o.closed, o.xfer))
			o.mu.Unlock()
		}
		h.mu.Unlock()
		n := c.Case("handles", kvs("ops", strings.Join(ops, ",")))
		if stale {
			c.NT(n)
		}
		is := strings.Join(issued, ",")
		if is == "" {
			is = "-"
		}
		cs := strings.Join(counts, ",")
		if cs == "" {
			cs = "-"
		}
		c.Obs(n, kvs("issued", is), kvs("fails", strings.Join(fails, "")), kvs("objs", cs))
		c.Oracle(n, true, "")
	}
}
