package main

import (
	"errors"
	"fmt"
	"io"
	"os"
	"path/filepath"
	"time"

	"github.com/pkg/sftp"
)

// c12 kind sinkfail: WriteTo "advances the offset by the bytes transferred" when the io.Writer it copies into fails. The same
// file is copied twice into a sink that fails on its k-th Write: once through the remote File (default 32 KiB packets, concurrent
// reads on and off, read-only and read+write handles, allocator on and off) and once through an os.File opened on the same file
// (io.Copy's buffer is 32 KiB too). Count, error and the offset afterwards - where the next Read or WriteTo continues - agree with
// the os.File's; and the two paths of the remote File agree with each other.
var errC12Sink = errors.New("sink failed")

type c12FailingSink struct {
	failAt  int // the Write call (0-based) that fails
	partial int // bytes the failing call reports as written
	calls   int
	got     int64
}

func (s *c12FailingSink) Write(b []byte) (int, error) {
	k := s.calls
	s.calls++
	if k == s.failAt {
		n := s.partial
		if n > len(b) {
			n = len(b)
		}
		s.got += int64(n)
		return n, errC12Sink
	}
	s.got += int64(len(b))
	return len(b), nil
}

func c12SinkFails(c *Ctx, dir string) {
	const chunk = 32768
	name := filepath.Join(dir, "sinkfile")
	total := 5*chunk + chunk/2
	os.WriteFile(name, patternBytes(4242, total), 0o644)
	i := 0
	for _, failAt := range []int{0, 1, 2, 4, 5} {
		for _, partial := range []int{0, 1000} {
			for _, cr := range []bool{true, false} {
				i++
				start := int64([]int{0, chunk, 100}[i%3])
				alloc := i%2 == 1
				cn := c.Case("sinkfail", kvi("failat", failAt), kvi("partial", partial), kvb("cr", cr), kvx("start", uint64(start)), kvb("alloc", alloc))
				c.NT(cn)
				c.Stat("sinkfail_cases")
				// the os.File
				of, err := os.Open(name)
				if err != nil {
					c.Oracle(cn, false, "harness: "+err.Error())
					continue
				}
				of.Seek(start, io.SeekStart)
				osink := &c12FailingSink{failAt: failAt, partial: partial}
				on, oerr := of.WriteTo(struct{ io.Writer }{osink})
				ooff, _ := of.Seek(0, io.SeekCurrent)
				of.Close()
				// the remote File
				p, err := newPair(pairOpt{alloc: alloc, clientOpts: []sftp.ClientOption{sftp.UseConcurrentReads(cr)}})
				if err != nil {
					c.Oracle(cn, false, "harness: "+err.Error())
					continue
				}
				f, err := p.Client.Open(name)
				if err != nil {
					p.Close()
					c.Oracle(cn, false, "harness: "+err.Error())
					continue
				}
				f.Seek(start, io.SeekStart)
				sink := &c12FailingSink{failAt: failAt, partial: partial}
				var n int64
				var werr error
				done := make(chan struct{})
				go func() { defer close(done); n, werr = f.WriteTo(struct{ io.Writer }{sink}) }()
				why := ""
				select {
				case <-done:
				case <-time.After(10 * time.Second):
					why = "WriteTo into a failing sink did not return within 10 s"
				}
				var off int64
				if why == "" {
					off, _ = f.Seek(0, io.SeekCurrent)
				}
				f.Close()
				p.Close()
				switch {
				case why != "":
				case (oerr != nil) != (werr != nil) || (oerr != nil && !errors.Is(werr, errC12Sink)):
					why = fmt.Sprintf("error: os.File.WriteTo returned %v, the remote File %v", oerr, werr)
				case n != on:
					why = fmt.Sprintf("count: the sink failed on its Write %d (taking %d bytes of it); os.File.WriteTo reports %d bytes, the remote File %d", failAt, partial, on, n)
				case off != ooff:
					why = fmt.Sprintf("offset-vs-transfer: after WriteTo into a sink that failed on its Write %d the os.File's offset is %d, the remote File's %d (concurrent reads %v)", failAt, ooff, off, cr)
				}
				c.Oracle(cn, why == "", why)
			}
		}
	}
}
