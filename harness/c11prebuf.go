package main

import (
	"bytes"
	"fmt"
	"io"
	"os"
	"path/filepath"
	"runtime"
	"runtime/debug"
	"strings"
	"sync"
	"time"
)

// c11 kind prebuf: the connection ends "after any request of the session" - here the whole session is already readable when
// Serve starts and is followed directly by EOF, so the receive loop never blocks and is done before the workers it started
// have been scheduled. By the time Serve returns every object a handler handed out has been closed exactly once (the os-backed
// server: every descriptor), the open ones got their transfer-error notification, the contexts are cancelled - and nothing
// calls into the handlers any more afterwards.
type c11PrebufConn struct {
	r      io.Reader
	mu     sync.Mutex
	wrote  int
	closed bool
}

func (c *c11PrebufConn) Read(b []byte) (int, error) { return c.r.Read(b) }
func (c *c11PrebufConn) Write(b []byte) (int, error) {
	c.mu.Lock()
	defer c.mu.Unlock()
	if c.closed {
		return 0, io.ErrClosedPipe
	}
	c.wrote += len(b)
	return len(b), nil
}
func (c *c11PrebufConn) Close() error {
	c.mu.Lock()
	defer c.mu.Unlock()
	c.closed = true
	return nil
}

var c11PrebufSessions = [][]string{
	{"open:/a.txt", "opendir:/d"},
	{"opendir:/d", "open:/b.bin", "open:/a.txt"},
	{"open:/a.txt"},
	{"open:/a.txt", "open:/missing", "opendir:/d", "stat:/a.txt"},
}

// c11PrebufOne runs one prebuffered session; after = calls into the handlers after Serve returned, unclosed = objects not
// closed exactly once (request server) or descriptors still open (os-backed server).
func c11PrebufOne(srv string, rep int, work string) (why string, after, unclosed int) {
	sess := c11PrebufSessions[rep%len(c11PrebufSessions)]
	alloc, oneProc := rep%2 == 1, rep%3 == 0
	var stream []byte
	stream = append(stream, rawInit()...)
	for i, op := range sess {
		id := uint32(i + 1)
		var kind, name string
		for j := 0; j < len(op); j++ {
			if op[j] == ':' {
				kind, name = op[:j], op[j+1:]
				break
			}
		}
		if srv == "os" {
			name = name[1:]
		}
		switch kind {
		case "open":
			stream = append(stream, rawOpen(id, name, 1, 0, nil)...)
		case "opendir":
			stream = append(stream, rawPathOp(fxpOpendir, id, name)...)
		case "stat":
			stream = append(stream, rawPathOp(fxpStat, id, name)...)
		}
	}
	opt := pairOpt{alloc: alloc}
	var fs *c11FS
	baseFD := 0
	oldGC := debug.SetGCPercent(-1)
	defer debug.SetGCPercent(oldGC)
	if srv == "os" {
		os.RemoveAll(work)
		os.Mkdir(work, 0o755)
		c11Populate(work)
		opt.workDir = work
		baseFD = c11CountFDs()
	} else {
		fs = newC11FS()
		fs.populateC11()
		opt.reqServer, opt.handlers = true, fs.handlers(rep%4 >= 2)
	}
	oldProcs := 0
	if oneProc {
		oldProcs = runtime.GOMAXPROCS(1)
	}
	conn := &c11PrebufConn{r: bytes.NewReader(stream)}
	done, err := startServer(conn, opt)
	if err != nil {
		if oneProc {
			runtime.GOMAXPROCS(oldProcs)
		}
		return "harness: cannot start server: " + err.Error(), 0, 0
	}
	hung := false
	select {
	case <-done:
	case <-time.After(10 * time.Second):
		hung = true
	}
	callsAtReturn := 0
	if fs != nil {
		callsAtReturn = fs.totalCalls()
	}
	if oneProc {
		runtime.GOMAXPROCS(oldProcs)
	}
	switch {
	case hung:
		why = "serve-hang: Serve did not return within 10s of a session that was readable at once and then ended"
	case srv == "os":
		if n := c11SettleFDs(baseFD); n > baseFD {
			unclosed = n - baseFD
			why = fmt.Sprintf("fd-leak: %d descriptors more than before the session after Serve returned (session readable at once, then EOF)", n-baseFD)
		}
	default:
		time.Sleep(100 * time.Millisecond)
		fs.mu.Lock()
		for _, o := range fs.objs {
			if o.nClose != 1 {
				unclosed++
			}
			if o.kind == "statlister" {
				if o.nClose != 1 && why == "" {
					why = fmt.Sprintf("close-count: statlister object closed %d times by the time Serve returned", o.nClose)
				}
				continue
			}
			if o.nClose != 1 && why == "" {
				why = fmt.Sprintf("close-count: %s object (%s, handle open at the end) closed %d times by the time Serve returned (session readable at once, then EOF)", o.kind, o.method, o.nClose)
			}
			wantTE := 1
			if o.kind == "lister" {
				wantTE = 0
			}
			if o.nTE != wantTE && why == "" {
				why = fmt.Sprintf("transfer-error-count: %s object (handle open at the end) got TransferError %d times, want %d", o.kind, o.nTE, wantTE)
			}
		}
		for _, rec := range fs.opens {
			if rec.ctx.Err() == nil && why == "" {
				why = fmt.Sprintf("ctx-not-cancelled-at-end: context handed to the %s handler still live after Serve returned", rec.method)
			}
		}
		after = fs.calls - callsAtReturn
		fs.mu.Unlock()
		if after != 0 && why == "" {
			why = fmt.Sprintf("calls-after-return: %d call(s) into the handlers or their objects were made after Serve had returned", after)
		}
	}
	return why, after, unclosed
}

func init() {
	childEntries["c11prebuf"] = func(args []string) {
		work := filepath.Join(os.TempDir(), fmt.Sprintf("vh-c11pb-%d", os.Getpid()))
		defer os.RemoveAll(work)
		childLoop(func(req string) string {
			var srv string
			var rep int
			if _, err := fmt.Sscanf(req, "%s %d", &srv, &rep); err != nil {
				return "FAIL harness: bad request"
			}
			why, after, unclosed := c11PrebufOne(srv, rep, work)
			if why == "" {
				why = "ok"
			}
			return fmt.Sprintf("%d %d %s", after, unclosed, why)
		})
	}
}

// the cases run in a child process: a server that panics there (a WaitGroup misused, say) is an oracle failure with its input
func c11Prebuffered(c *Ctx, work string) {
	reps := 12
	if c.Thorough() {
		reps = 150
	}
	var ch *childProc
	defer func() {
		if ch != nil {
			ch.kill()
		}
	}()
	for rep := 0; rep < reps; rep++ {
		for _, srv := range []string{"req", "os"} {
			sess := c11PrebufSessions[rep%len(c11PrebufSessions)]
			opens := 0
			for _, op := range sess {
				if op != "open:/missing" && op[:4] == "open" {
					opens++
				}
			}
			cn := c.Case("prebuf", kvs("srv", srv), kvi("rep", rep), kvi("requests", len(sess)), kvi("opens", opens), kvb("alloc", rep%2 == 1), kvb("oneproc", rep%3 == 0))
			c.NT(cn)
			c.Stat("prebuffered_sessions_" + srv)
			if ch == nil {
				var err error
				if ch, err = startChild("c11prebuf", 8<<20); err != nil {
					c.Oracle(cn, false, "harness: cannot start child: "+err.Error())
					return
				}
			}
			ans, alive := ch.ask(fmt.Sprintf("%s %d", srv, rep), 40*time.Second)
			if !alive {
				ch.kill()
				ch = nil
				c.Oracle(cn, false, "server-crash: the process died (or hung) in a session that was readable at once and then ended (INIT, OPENs, OPENDIR, then EOF)")
				continue
			}
			var after, unclosed int
			var why string
			if f := strings.SplitN(ans, " ", 3); len(f) == 3 {
				fmt.Sscanf(f[0], "%d", &after)
				fmt.Sscanf(f[1], "%d", &unclosed)
				why = f[2]
			} else {
				why = "harness: bad answer " + ans
			}
			c.Obs(cn, kvi("after", after), kvi("unclosed", unclosed))
			c.Oracle(cn, why == "ok", strings.TrimPrefix(why, "FAIL "))
		}
	}
}
