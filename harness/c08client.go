package main

import (
	"bytes"
	"fmt"
	"strings"
	"time"
)

// c08 kind clientdata: the client decodes DATA replies in more than one place (readChunkAt, and the concurrent WriteTo, which slices
// a pooled buffer by the length the reply declares). Well-formed DATA replies - declared length = bytes carried - that carry MORE
// than the chunk that was asked for (8 bytes here), up to far more: a value or an error, never a panic. Runs in the child process of
// the client-reply family; crash, hang, follow-up and Close are judged.
func c08ClientData(c *Ctx) {
	child, err := startChild("c20", 6000000)
	if err != nil {
		c.Diag("clientdata: cannot start child: %v", err)
		return
	}
	defer func() { child.kill() }()
	for _, op := range []string{"writeto", "writeto-every", "readconc", "readconc-every", "read8"} {
		for _, n := range []int{9, 16, 24, 300, 40000} {
			reply := pkt(fxpData, 0).str(string(bytes.Repeat([]byte{'d'}, n))).b
			cn := c.Case("clientdata", kvs("op", op), kvi("carried", n), kvi("asked", 8))
			c.NT(cn)
			c.Stat("clientdata_cases")
			ans, alive := child.ask(op+" "+hexs(reply), 25*time.Second)
			switch {
			case !alive:
				child.kill()
				child, _ = startChild("c20", 6000000)
				c.Oracle(cn, false, fmt.Sprintf("client process crashed (panic in the caller or a background goroutine) or hung: %s, every chunk of 8 bytes answered with a well-formed DATA reply of %d bytes", op, n))
			case strings.Contains(ans, "res=hang") || strings.Contains(ans, "close=hang"):
				c.Oracle(cn, false, "operation or Close did not return: "+ans)
			default:
				c.Oracle(cn, true, "")
			}
			if child == nil {
				return
			}
		}
	}
}
