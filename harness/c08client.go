package main

import (
	"bytes"
	"fmt"
	"strings"
	"time"
)

// c08 kind clientdata: the client decodes DATA replies in more than one place (readChunkAt, and the concurrent WriteTo, which slices
// a pooled buffer by the length the reply declares). Well-formed DATA replies - declared length = bytes carried - that carry MORE
// than the chunk that was asked for (8 bytes here), up to far more: a value or an error, never a panic. Runs in the child process of
// the client-reply family; crash, hang, follow-up and Close are judged.
func c08ClientData(c *Ctx) {
	child, err := startChild("c20", 6000000)
	if err != nil {
		c.Diag("clientdata: cannot start child: %v", err)
		return
	}
	defer func() { child.kill() }()
	for _, op := range []string{"writeto", "writeto-every", "readconc", "readconc-every", "read8"} {
		for _, n := range []int{9, 16, 24, 300, 40000} {
			reply := pkt(fxpData, 0).str(string(bytes.Repeat([]byte{'d'}, n))).b
			cn := c.Case("clientdata", kvs("op", op), kvi("carried", n), kvi("asked", 8))
			c.NT(cn)
			c.Stat("clientdata_cases")
			ans, alive := child.ask(op+" "+hexs(reply), 25*time.Second)
			switch {
			case !alive:
				child.kill()
				child, _ = startChild("c20", 6000000)
				c.Oracle(cn, false, fmt.Sprintf("client process crashed (panic in the caller or a background goroutine) or hung: %s, every chunk of 8 bytes answered with a well-formed DATA reply of %d bytes", op, n))
			case strings.Contains(ans, "res=hang") || strings.Contains(ans, "close=hang"):
				c.Oracle(cn, false, "operation or Close did not return: "+ans)
			default:
				c.Oracle(cn, true, "")
			}
			if child == nil {
				return
			}
		}
	}
}

// c08 kind clientnames: the client's own decoder of NAME replies (ReadDir). A reply whose count field promises far more entries
// than its bytes can hold (nothing, one or two whole entries behind it): an error or the entries that are there, never a crash,
// and memory in proportion to the bytes received, not to the number the peer wrote into the count field.
func c08ClientNames(c *Ctx) {
	child, err := startChild("c20", 6000000)
	if err != nil {
		c.Diag("clientnames: cannot start child: %v", err)
		return
	}
	defer func() { child.kill() }()
	entry := func(name string) []byte {
		return (&rb{}).str(name).str("-rw-r--r-- 1 0 0 0 Jan 1 1970 " + name).u32(0).b
	}
	for _, count := range []uint32{3, 1 << 10, 1 << 16, 1 << 20, 1 << 22, 1 << 24} {
		for present := 0; present <= 2; present++ {
			r := pkt(fxpName, 0).u32(count)
			for i := 0; i < present; i++ {
				r.raw(entry(fmt.Sprintf("n%d", i)))
			}
			reply := r.b
			cn := c.Case("clientnames", kvx("count", uint64(count)), kvi("present", present))
			c.NT(cn)
			c.Stat("clientnames_cases")
			ans, alive := child.ask("readdir "+hexs(reply), 25*time.Second)
			var alloc uint64
			for _, f := range strings.Fields(ans) {
				if strings.HasPrefix(f, "alloc=") {
					fmt.Sscanf(f[6:], "%d", &alloc)
				}
			}
			switch {
			case !alive:
				child.kill()
				child, _ = startChild("c20", 6000000)
				c.Oracle(cn, false, fmt.Sprintf("client process crashed or hung: ReadDir answered with a NAME reply of count %d carrying %d entries", count, present))
			case strings.Contains(ans, "res=hang") || strings.Contains(ans, "close=hang"):
				c.Oracle(cn, false, "operation or Close did not return: "+ans)
			case alloc > 64*uint64(len(reply))+3000000:
				c.Oracle(cn, false, fmt.Sprintf("count-driven-allocation: ReadDir allocated %d bytes for a %d-byte NAME reply whose count field says %d", alloc, len(reply), count))
			default:
				c.Oracle(cn, true, "")
			}
			if child == nil {
				return
			}
		}
	}
}
