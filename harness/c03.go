package main

// C03 — each client call gets the reply to its own request.
//
// A scripted peer parses the client->server stream strictly (every frame: sane length, known type, fields consume the
// body exactly), records every request, refuses an id that is reused while still outstanding, answers with
// REQUEST-DEPENDENT content and releases the replies of the currently outstanding set in a permuted order:
// it collects until w requests are outstanding (or nothing arrives for a short idle time) and then writes all held
// replies in a permutation (all permutations in turn over successive histories when w <= 4, seeded shuffles otherwise).
// g goroutines share one Client (half of them also one *File) and check every result against the peer's function of
// the call's own arguments.
//
// The peer reads requests continuously; replies are written by a separate goroutine (net.Pipe is synchronous).

import (
	"bytes"
	"encoding/binary"
	"errors"
	"fmt"
	"io"
	"math/rand"
	"net"
	"os"
	"sort"
	"strconv"
	"strings"
	"sync"
	"sync/atomic"
	"time"

	"github.com/pkg/sftp"
)

func init() { register("c03", runC03) }

const (
	c03FileSize  = 1 << 16
	c03Watchdog  = 5 * time.Second
	c03CaseLimit = 15 * time.Second
)

// c03Byte is the content of file j at position pos.
func c03Byte(j int, pos uint64) byte {
	h := uint32(pos)*2654435761 ^ uint32(j+1)*2246822519
	return byte(h>>24) ^ byte(h>>11) ^ byte(h)
}

func c03Data(j int, off uint64, n int) []byte {
	b := make([]byte, n)
	for i := range b {
		b[i] = c03Byte(j, off+uint64(i))
	}
	return b
}

func c03StatSize(j int) int64 { return int64(j)*1000 + 7 }

// ---------------------------------------------------------------- the scripted peer

type c03Req struct {
	seq   int
	id    uint32
	typ   byte
	reply []byte // whole frame
}

type c03Peer struct {
	c2    net.Conn
	idle  time.Duration
	w     atomic.Int32 // release when this many replies are held
	act   atomic.Int32 // callers still issuing requests; 0 = do not lower the threshold
	kick  chan struct{}
	reqCh chan *c03Req
	perm  func(batch, m int) []int

	mu          sync.Mutex
	violation   string
	outstanding map[uint32]int
	seenIDs     map[uint32]bool
	idReuse     int
	keys        map[string]int // STAT/READ/WRITE requests seen, by canonical key
	nreq        int
	batches     map[int]int
	outOfOrder  int // replies written although an older request was still unanswered
	nonIdentity int
	maxHeld     int

	done chan struct{}
}

func newC03Peer(c2 net.Conn, idle time.Duration, perm func(batch, m int) []int) *c03Peer {
	p := &c03Peer{c2: c2, idle: idle, kick: make(chan struct{}, 1), reqCh: make(chan *c03Req, 1<<14), perm: perm,
		outstanding: map[uint32]int{}, seenIDs: map[uint32]bool{}, keys: map[string]int{}, batches: map[int]int{}, done: make(chan struct{})}
	p.w.Store(1)
	go p.run()
	return p
}

func (p *c03Peer) violate(s string) {
	p.mu.Lock()
	if p.violation == "" {
		p.violation = s
	}
	p.mu.Unlock()
}

func (p *c03Peer) setActive(n int) {
	p.act.Store(int32(n))
	select {
	case p.kick <- struct{}{}:
	default:
	}
}

func (p *c03Peer) threshold() int {
	w := int(p.w.Load())
	if a := int(p.act.Load()); a > 0 && a < w {
		w = a
	}
	if w < 1 {
		w = 1
	}
	return w
}

func (p *c03Peer) run() {
	defer close(p.done)
	sdone := make(chan struct{})
	go func() { defer close(sdone); p.scheduler() }()
	p.reader()
	close(p.reqCh)
	<-sdone
}

type c03Rd struct {
	b  []byte
	ok bool
}

func (r *c03Rd) u32() uint32 {
	if len(r.b) < 4 {
		r.ok = false
		return 0
	}
	v := binary.BigEndian.Uint32(r.b)
	r.b = r.b[4:]
	return v
}
func (r *c03Rd) u64() uint64 {
	if len(r.b) < 8 {
		r.ok = false
		return 0
	}
	v := binary.BigEndian.Uint64(r.b)
	r.b = r.b[8:]
	return v
}
func (r *c03Rd) str() string {
	l := r.u32()
	if !r.ok || uint64(l) > uint64(len(r.b)) {
		r.ok = false
		return ""
	}
	s := string(r.b[:l])
	r.b = r.b[l:]
	return s
}

func c03Index(s, prefix string) (int, bool) {
	if !strings.HasPrefix(s, prefix) {
		return 0, false
	}
	j, err := strconv.Atoi(s[len(prefix):])
	return j, err == nil && j >= 0 && j < 1000
}

// reader parses the client->server stream. Any deviation from "a sequence of whole, well-formed request frames"
// is latched as a violation and ends the session (the stream cannot be resynchronised).
func (p *c03Peer) reader() {
	bad := func(s string) {
		p.violate(s)
		p.c2.Close()
	}
	seq := 0
	first := true
	for {
		var hdr [4]byte
		if n, err := io.ReadFull(p.c2, hdr[:]); err != nil {
			if n != 0 {
				bad("frame-interleaved: the request stream ends inside a length prefix")
			}
			return
		}
		l := binary.BigEndian.Uint32(hdr[:])
		if l < 5 || l > 1<<17 {
			bad(fmt.Sprintf("frame-interleaved: length prefix %d is not the length of any request", l))
			return
		}
		body := make([]byte, l)
		if _, err := io.ReadFull(p.c2, body); err != nil {
			bad("frame-interleaved: the request stream ends inside a frame")
			return
		}
		typ := body[0]
		r := &c03Rd{b: body[1:], ok: true}
		if first {
			first = false
			if typ != fxpInit || r.u32() != 3 || len(r.b) != 0 {
				bad("frame-interleaved: the first frame is not INIT version 3")
				return
			}
			p.reqCh <- &c03Req{seq: -1, reply: frame((&rb{}).u8(fxpVersion).u32(3).b)}
			continue
		}
		id := r.u32()
		var reply []byte
		key := ""
		switch typ {
		case fxpStat, fxpLstat:
			path := r.str()
			if j, ok := c03Index(path, "/f"); ok && r.ok {
				reply = pkt(fxpAttrs, id).u32(0x5).u64(uint64(c03StatSize(j))).u32(0o100644).b
			} else if _, ok := c03Index(path, "/e"); ok && r.ok {
				reply = pkt(fxpStatus, id).u32(2).str("no such file").str("").b
			} else {
				r.ok = false
			}
			key = "S|" + path
		case fxpFstat:
			h := r.str()
			if j, ok := c03Index(h, "h"); ok && r.ok {
				reply = pkt(fxpAttrs, id).u32(0x5).u64(uint64(c03StatSize(j))).u32(0o100644).b
			} else {
				r.ok = false
			}
		case fxpOpen:
			path := r.str()
			r.u32() // pflags
			if r.u32() != 0 {
				r.ok = false // the client sends no attributes
			}
			if j, ok := c03Index(path, "/f"); ok && r.ok {
				reply = pkt(fxpHandle, id).str(fmt.Sprintf("h%d", j)).b
			} else {
				r.ok = false
			}
		case fxpClose:
			if _, ok := c03Index(r.str(), "h"); !ok {
				r.ok = false
			}
			reply = pkt(fxpStatus, id).u32(0).str("").str("").b
		case fxpRead:
			h := r.str()
			off := r.u64()
			n := r.u32()
			j, ok := c03Index(h, "h")
			if !ok || n == 0 || n > 1<<16 {
				r.ok = false
			} else if off >= c03FileSize {
				reply = pkt(fxpStatus, id).u32(1).str("EOF").str("").b
			} else {
				if off+uint64(n) > c03FileSize {
					n = uint32(c03FileSize - off)
				}
				reply = pkt(fxpData, id).str(string(c03Data(j, off, int(n)))).b
			}
			key = fmt.Sprintf("R|%s|%d|%d", h, off, n)
		case fxpWrite:
			h := r.str()
			off := r.u64()
			data := r.str()
			if _, ok := c03Index(h, "h"); !ok {
				r.ok = false
			}
			reply = pkt(fxpStatus, id).u32(0).str("").str("").b
			key = fmt.Sprintf("W|%s|%d|%x", h, off, data)
		default:
			bad(fmt.Sprintf("frame-interleaved: frame of unknown request type %d", typ))
			return
		}
		if !r.ok {
			bad(fmt.Sprintf("frame-interleaved: the fields of a type-%d frame do not parse", typ))
			return
		}
		if len(r.b) != 0 {
			bad(fmt.Sprintf("frame-interleaved: %d bytes left over after the fields of a type-%d frame", len(r.b), typ))
			return
		}
		p.mu.Lock()
		_, dup := p.outstanding[id]
		if !dup {
			p.outstanding[id] = seq
			if p.seenIDs[id] {
				p.idReuse++
			}
			p.seenIDs[id] = true
			if key != "" && (typ == fxpStat || typ == fxpRead || typ == fxpWrite) {
				p.keys[key]++
			}
			p.nreq++
		}
		p.mu.Unlock()
		if dup {
			bad(fmt.Sprintf("dup-inflight-id: a type-%d request reuses an id that is still unanswered", typ))
			return
		}
		p.reqCh <- &c03Req{seq: seq, id: id, typ: typ, reply: frame(reply)}
		seq++
	}
}

// scheduler holds replies and releases the held set in a permuted order.
func (p *c03Peer) scheduler() {
	var pending []*c03Req
	batch := 0
	release := func() bool {
		m := len(pending)
		order := p.perm(batch, m)
		batch++
		ident := true
		p.mu.Lock()
		p.batches[m]++
		if m > p.maxHeld {
			p.maxHeld = m
		}
		p.mu.Unlock()
		for i, oi := range order {
			if oi != i {
				ident = false
			}
			r := pending[oi]
			p.mu.Lock()
			older := false
			for _, s := range p.outstanding {
				if s < r.seq {
					older = true
				}
			}
			if older {
				p.outOfOrder++
			}
			delete(p.outstanding, r.id)
			p.mu.Unlock()
			if _, err := p.c2.Write(r.reply); err != nil {
				return false
			}
		}
		if !ident {
			p.mu.Lock()
			p.nonIdentity++
			p.mu.Unlock()
		}
		pending = pending[:0]
		return true
	}
	for {
		var tc <-chan time.Time
		var timer *time.Timer
		if len(pending) > 0 {
			timer = time.NewTimer(p.idle)
			tc = timer.C
		}
		closed := false
		fire := false
		select {
		case r, ok := <-p.reqCh:
			if !ok {
				closed = true
			} else {
				pending = append(pending, r)
			}
		case <-p.kick:
		case <-tc:
			fire = true
		}
		if timer != nil {
			timer.Stop()
		}
		if closed {
			return
		}
		if len(pending) > 0 && (fire || len(pending) >= p.threshold()) {
			if !release() {
				for range p.reqCh { // keep draining so that the reader never blocks
				}
				return
			}
		}
	}
}

// c03NthPerm returns permutation number k (lexicographic, k taken mod m!) of 0..m-1.
func c03NthPerm(m, k int) []int {
	fact := 1
	for i := 2; i <= m; i++ {
		fact *= i
	}
	k %= fact
	pool := make([]int, m)
	for i := range pool {
		pool[i] = i
	}
	out := make([]int, 0, m)
	for i := m; i >= 1; i-- {
		fact /= i
		q := k / fact
		k %= fact
		out = append(out, pool[q])
		pool = append(pool[:q], pool[q+1:]...)
	}
	return out
}

// ---------------------------------------------------------------- the client side

type c03Op struct {
	kind string // stat staterr read readeof write mread mreadeof
	j    int    // file index of the path (stat) or of the handle
	off  int64
	n    int
	data []byte // write
}

type c03CaseRes struct {
	reasons     []string
	outOfOrder  int
	nonIdentity int
	batches     map[int]int
	maxHeld     int
	nreq        int
	nops        int
	wire        []string // the client's Write calls, classified (see c03WireRec)
	twoPart     int
}

// c03WireRec records the Write calls the client makes on its transport, one token per call:
//
//	o<id>  a whole packet in one Write          h<id>  the header of a packet whose payload follows in its own Write
//	p<id>  the payload that completes h<id>      x      anything else (a Write that is not where a packet part may start)
//
// The token list is what coq/Conn/WireMutex.v calls the wire; `scan` reads it.
type c03WireRec struct {
	w      io.WriteCloser
	mu     sync.Mutex
	toks   []string
	open   bool
	openID uint32
	remain int
	two    int
}

func (r *c03WireRec) Write(b []byte) (int, error) {
	r.mu.Lock()
	switch {
	case r.open && len(b) == r.remain:
		r.toks = append(r.toks, fmt.Sprintf("p%d", r.openID))
		r.open = false
	case len(b) >= 5 && int(binary.BigEndian.Uint32(b[:4])) >= len(b)-4:
		l := int(binary.BigEndian.Uint32(b[:4]))
		var id uint32
		if b[4] != fxpInit && len(b) >= 9 {
			id = binary.BigEndian.Uint32(b[5:9])
		}
		if l == len(b)-4 {
			r.toks = append(r.toks, fmt.Sprintf("o%d", id))
		} else {
			r.toks = append(r.toks, fmt.Sprintf("h%d", id))
			if !r.open {
				r.open, r.openID, r.remain = true, id, l-(len(b)-4)
				r.two++
			}
		}
	default:
		r.toks = append(r.toks, "x")
	}
	r.mu.Unlock()
	return r.w.Write(b)
}

func (r *c03WireRec) Close() error { return r.w.Close() }

// c03Dribble hands the client the reply stream in pieces of 1 to 3 bytes (a byte stream may be cut anywhere: an ssh channel,
// a TCP segment boundary or a proxy may split even the 4-byte length prefix of a reply)
type c03Dribble struct {
	r   io.Reader
	rng *rand.Rand
}

func (d *c03Dribble) Read(p []byte) (int, error) {
	if k := 1 + d.rng.Intn(3); len(p) > k {
		p = p[:k]
	}
	return d.r.Read(p)
}

func c03Within(d time.Duration, fn func()) bool {
	ch := make(chan struct{})
	go func() { fn(); close(ch) }()
	select {
	case <-ch:
		return true
	case <-time.After(d):
		return false
	}
}

// c03GenOps draws the operation list of one caller. file is the index of the *File the caller uses.
func c03GenOps(rng *rand.Rand, kinds []string, nops, file, maxPacket, g int) []c03Op {
	ops := make([]c03Op, 0, nops)
	for i := 0; i < nops; i++ {
		k := kinds[rng.Intn(len(kinds))]
		op := c03Op{kind: k, j: file}
		switch k {
		case "stat", "staterr":
			op.j = rng.Intn(200)
		case "read":
			top := 64
			if maxPacket < top {
				top = maxPacket
			}
			op.n = 4 + rng.Intn(top-3)
			op.off = int64(rng.Intn(c03FileSize - 4096))
		case "readeof":
			op.n = 24 + rng.Intn(maxPacket-24+1)
			if op.n > 64 {
				op.n = 64
			}
			op.off = c03FileSize - 1 - int64(rng.Intn(op.n-1))
		case "write":
			top := 48
			if maxPacket < top {
				top = maxPacket
			}
			op.n = 1 + rng.Intn(top)
			op.off = int64(rng.Intn(1 << 30))
			op.data = make([]byte, op.n)
			for x := range op.data {
				op.data[x] = byte(g*131 + i*17 + x*29 + 1)
			}
		case "mread":
			op.n = maxPacket + 1 + rng.Intn(maxPacket*9)
			op.off = int64(rng.Intn(c03FileSize - 4096))
		case "mwrite": // more chunks than the per-file request limit (4 in class multi), sent by the concurrent write path
			op.n = maxPacket*4 + 1 + rng.Intn(maxPacket*9)
			op.off = int64(rng.Intn(1 << 30))
			op.data = make([]byte, op.n)
			for x := range op.data {
				op.data[x] = byte(g*131 + i*17 + x*29 + 1)
			}
		case "mreadeof":
			op.n = maxPacket*2 + rng.Intn(maxPacket*6)
			op.off = c03FileSize - 1 - int64(rng.Intn(op.n-maxPacket))
		}
		ops = append(ops, op)
	}
	return ops
}

// c03Expected adds the STAT/READ/WRITE requests that op must put on the wire (only for ops that never meet EOF).
func c03Expected(keys map[string]int, op c03Op, maxPacket int) {
	switch op.kind {
	case "stat":
		keys[fmt.Sprintf("S|/f%d", op.j)]++
	case "staterr":
		keys[fmt.Sprintf("S|/e%d", op.j)]++
	case "write":
		keys[fmt.Sprintf("W|h%d|%d|%x", op.j, op.off, op.data)]++
	case "read":
		keys[fmt.Sprintf("R|h%d|%d|%d", op.j, op.off, op.n)]++
	case "mwrite":
		for o := 0; o < op.n; o += maxPacket {
			l := op.n - o
			if l > maxPacket {
				l = maxPacket
			}
			keys[fmt.Sprintf("W|h%d|%d|%x", op.j, op.off+int64(o), op.data[o:o+l])]++
		}
	case "mread":
		for o := 0; o < op.n; o += maxPacket {
			l := op.n - o
			if l > maxPacket {
				l = maxPacket
			}
			keys[fmt.Sprintf("R|h%d|%d|%d", op.j, op.off+int64(o), l)]++
		}
	}
}

// c03Check runs one op and returns "" or the reason why its result is not the reply to its own request.
func c03Check(cl *sftp.Client, f *sftp.File, op c03Op) string {
	switch op.kind {
	case "stat":
		fi, err := cl.Stat(fmt.Sprintf("/f%d", op.j))
		if err != nil {
			return "wrong-reply: Stat of an existing path returned an error"
		}
		if fi.Size() != c03StatSize(op.j) {
			return "wrong-reply: Stat returned the size the server produced for another path"
		}
	case "staterr":
		_, err := cl.Stat(fmt.Sprintf("/e%d", op.j))
		if err == nil {
			return "wrong-reply: Stat of a missing path returned a value"
		}
		if !errors.Is(err, os.ErrNotExist) {
			return "wrong-reply: Stat of a missing path returned an error other than the server's status"
		}
	case "read", "mread":
		b := make([]byte, op.n)
		n, err := f.ReadAt(b, op.off)
		if err != nil || n != op.n {
			return "wrong-reply: ReadAt inside the file did not return the whole range"
		}
		if !bytes.Equal(b, c03Data(op.j, uint64(op.off), op.n)) {
			return "wrong-reply: ReadAt returned bytes the server produced for another handle or offset"
		}
	case "readeof", "mreadeof":
		b := make([]byte, op.n)
		n, err := f.ReadAt(b, op.off)
		want := int(c03FileSize - op.off)
		if err != io.EOF || n != want {
			return "wrong-reply: ReadAt across the end of the file did not return (size-off, io.EOF)"
		}
		if !bytes.Equal(b[:n], c03Data(op.j, uint64(op.off), n)) {
			return "wrong-reply: ReadAt returned bytes the server produced for another handle or offset"
		}
	case "write", "mwrite":
		n, err := f.WriteAt(op.data, op.off)
		if err != nil || n != op.n {
			return "wrong-reply: WriteAt did not return the server's OK status"
		}
	}
	return ""
}

func c03RunCase(class string, G, W int, kinds []string, nops int, perm func(batch, m int) []int, opSeed int64, dribble bool) *c03CaseRes {
	res := &c03CaseRes{}
	add := func(s string) { res.reasons = append(res.reasons, s) }
	c1, c2 := net.Pipe()
	idle := 20 * time.Millisecond
	maxPacket := 1 << 15
	var opts []sftp.ClientOption
	if class == "multi" {
		maxPacket = 16
		idle = 6 * time.Millisecond
		opts = []sftp.ClientOption{sftp.MaxPacketUnchecked(16), sftp.MaxConcurrentRequestsPerFile(4), sftp.UseConcurrentWrites(true)}
	}
	p := newC03Peer(c2, idle, perm)
	rec := &c03WireRec{w: c1}
	var rd io.Reader = c1
	if dribble {
		rd = &c03Dribble{r: c1, rng: rand.New(rand.NewSource(opSeed ^ 0x5eed))}
	}
	finish := func() {
		c1.Close()
		c2.Close()
		select {
		case <-p.done:
		case <-time.After(c03Watchdog):
			add("harness: the scripted peer did not stop")
		}
		p.mu.Lock()
		if p.violation != "" {
			res.reasons = append([]string{p.violation}, res.reasons...)
		}
		res.outOfOrder, res.nonIdentity, res.maxHeld, res.nreq = p.outOfOrder, p.nonIdentity, p.maxHeld, p.nreq
		res.batches = p.batches
		p.mu.Unlock()
		rec.mu.Lock()
		res.wire, res.twoPart = append([]string(nil), rec.toks...), rec.two
		rec.mu.Unlock()
	}
	var cl *sftp.Client
	var err error
	if !c03Within(c03Watchdog, func() { cl, err = sftp.NewClientPipe(rd, rec, opts...) }) || err != nil {
		add("harness: session setup failed")
		finish()
		return res
	}
	// half of the callers (the even ones) share one *File, the others have their own
	files := make([]*sftp.File, G)
	fileIdx := make([]int, G)
	ok := c03Within(c03Watchdog, func() {
		var shared *sftp.File
		shared, err = cl.Open("/f0")
		for g := 0; g < G && err == nil; g++ {
			if g%2 == 0 {
				files[g], fileIdx[g] = shared, 0
			} else {
				fileIdx[g] = g + 1
				files[g], err = cl.Open(fmt.Sprintf("/f%d", g+1))
			}
		}
	})
	if !ok || err != nil {
		add("harness: session setup failed")
		finish()
		return res
	}
	rng := rand.New(rand.NewSource(opSeed))
	ops := make([][]c03Op, G)
	expected := map[string]int{}
	exactReads := true
	for g := 0; g < G; g++ {
		ops[g] = c03GenOps(rng, kinds, nops, fileIdx[g], maxPacket, g)
		for _, op := range ops[g] {
			c03Expected(expected, op, maxPacket)
			if op.kind == "readeof" || op.kind == "mreadeof" {
				exactReads = false
			}
		}
		res.nops += len(ops[g])
	}
	var mu sync.Mutex
	var active atomic.Int32
	active.Store(int32(G))
	if class == "single" {
		p.setActive(G) // a caller has at most one request outstanding: never wait for more than there are callers
	}
	p.w.Store(int32(W))
	var wg sync.WaitGroup
	for g := 0; g < G; g++ {
		wg.Add(1)
		go func(g int) {
			defer wg.Done()
			for _, op := range ops[g] {
				if r := c03Check(cl, files[g], op); r != "" {
					mu.Lock()
					add(r)
					mu.Unlock()
				}
			}
			n := active.Add(-1)
			if class == "single" && n > 0 {
				p.setActive(int(n))
			}
		}(g)
	}
	if !c03Within(c03CaseLimit, wg.Wait) {
		mu.Lock()
		add(fmt.Sprintf("hang: %d of %d callers did not finish their calls", active.Load(), G))
		mu.Unlock()
		finish()
		return res
	}
	p.w.Store(1)
	p.setActive(0)
	c03Within(c03Watchdog, func() {
		closed := map[*sftp.File]bool{}
		for _, f := range files {
			if !closed[f] {
				closed[f] = true
				f.Close()
			}
		}
		cl.Close()
	})
	finish()
	// every STAT/WRITE (and READ, when no read meets the end of the file) seen by the peer is one issued request, whole
	p.mu.Lock()
	for k, n := range p.keys {
		if !exactReads && k[0] == 'R' {
			continue
		}
		if expected[k] != n {
			add("request-mismatch: the peer received a request no caller issued (or one twice)")
			break
		}
	}
	for k, n := range expected {
		if p.keys[k] != n {
			add("request-mismatch: an issued request did not reach the peer exactly once")
			break
		}
	}
	p.mu.Unlock()
	sort.Strings(res.reasons)
	return res
}

// ---------------------------------------------------------------- the family

func runC03(c *Ctx) {
	c.Rule("kind perm: g goroutines share one Client (even ones one *File, odd ones their own) and run seeded mixes of Stat(existing/missing), single-packet ReadAt (also across EOF), WriteAt " +
		"(class=single) or multi-chunk ReadAt and, on the concurrent write path (UseConcurrentWrites), WriteAt of more chunks than the per-file request limit, with MaxPacketUnchecked(16)/MaxConcurrentRequestsPerFile(4), mixed with the others (class=multi); the scripted peer validates every request frame, " +
		"rejects an id reused while unanswered, answers by request-dependent content and releases held replies whenever w are outstanding (or after an idle time) in a permuted order: " +
		"w<=4: permutation number hist+batch of the held set (all permutations over successive hist), w>4: seeded shuffle; " +
		"non-trivial = at least one reply was written while an older request was still unanswered")
	singleMixes := [][]string{{"stat"}, {"read"}, {"stat", "read"}, {"stat", "read", "write"}, {"stat", "staterr", "read", "readeof", "write"}}
	multiMixes := [][]string{{"mread"}, {"mread", "stat"}, {"mread", "read", "stat"}, {"mread", "mreadeof", "stat", "staterr", "write"}, {"mread", "mread", "mread", "write"},
		{"mwrite", "stat"}, {"mwrite", "mread", "stat", "write"}}
	type combo struct {
		class string
		g, w  int
	}
	combos := []combo{
		{"single", 1, 1}, {"single", 2, 2}, {"single", 4, 2}, {"single", 4, 3}, {"single", 4, 4}, {"single", 8, 2}, {"single", 8, 4}, {"single", 8, 6}, {"single", 8, 8},
		{"multi", 1, 2}, {"multi", 1, 3}, {"multi", 1, 4}, {"multi", 1, 5}, {"multi", 2, 2}, {"multi", 2, 4}, {"multi", 2, 7}, {"multi", 4, 4}, {"multi", 4, 8}, {"multi", 4, 12},
		{"multi", 8, 3}, {"multi", 8, 8}, {"multi", 8, 16}, {"multi", 8, 24},
	}
	hists := 24 * 3
	if c.Thorough() {
		hists = 24 * 40
	}
	for _, cb := range combos {
		H := hists
		if cb.g == 1 && cb.w == 1 {
			H = 5 // one caller, one request at a time: nothing to permute
		}
		for h := 0; h < H; h++ {
			mixes := singleMixes
			nops := 40
			if cb.class == "multi" {
				mixes = multiMixes
				nops = 8
			}
			kinds := mixes[h%len(mixes)]
			opSeed := c.Rng.Int63()
			permRng := rand.New(rand.NewSource(c.Rng.Int63()))
			hh := h
			exhaustive := cb.w <= 4
			perm := func(batch, m int) []int {
				if exhaustive && m <= 4 {
					return c03NthPerm(m, hh+batch)
				}
				return permRng.Perm(m)
			}
			dribble := h%3 == 2 // a third of the histories: the reply stream reaches the client in pieces of 1 to 3 bytes
			n := c.Case("perm", kvi("g", cb.g), kvi("w", cb.w), kvi("hist", h), kvs("kindmix", strings.Join(kinds, "+")), kvs("class", cb.class), kvb("dribble", dribble))
			r := c03RunCase(cb.class, cb.g, cb.w, kinds, nops, perm, opSeed, dribble)
			if dribble {
				c.Stat("histories_with_replies_in_1_to_3_byte_pieces")
			}
			if r.outOfOrder > 0 {
				c.NT(n)
			}
			c.Stat("class_" + cb.class)
			c.Stat(fmt.Sprintf("g_%d", cb.g))
			for _, k := range kinds {
				c.Stat("kind_" + k)
			}
			c.StatN("client_calls", r.nops)
			c.StatN("requests_seen_by_peer", r.nreq)
			c.StatN("replies_out_of_request_order", r.outOfOrder)
			c.StatN("batches_nonidentity", r.nonIdentity)
			for m, k := range r.batches {
				c.StatN(fmt.Sprintf("batch_size_%02d", m), k)
			}
			if len(r.reasons) == 0 {
				c.Oracle(n, true, "")
			} else {
				u := []string{}
				for i, s := range r.reasons {
					if i == 0 || r.reasons[i-1] != s {
						u = append(u, s)
					}
				}
				c.Oracle(n, false, strings.Join(u, " ; "))
			}
			// the contiguity clause, tied to coq/Conn/WireMutex.v: the Write calls of this run, read by the model's `scan`
			if len(r.wire) > 0 {
				wn := c.Case("wirescan", kvi("g", cb.g), kvi("w", cb.w), kvi("hist", h), kvs("class", cb.class), kvi("writes", len(r.wire)), "wire="+strings.Join(r.wire, ","))
				c.Obs(wn, "scan=whole")
				c.Oracle(wn, true, "")
				if cb.g >= 2 && r.twoPart > 0 {
					c.NT(wn)
				}
				c.StatN("wire_writes", len(r.wire))
				c.StatN("wire_two_part_packets", r.twoPart)
			}
		}
	}
	c03WireClose(c)
	c03RefusedOutOfOrder(c)
}
