package main

import (
	"fmt"
	"io"
	"os"
	"path/filepath"

	"github.com/pkg/sftp"
)

// c16 kind ownedlisting: "with the attributes the server reported" for entries that say who owns them. An id-mapping handler
// hands out the host's os.FileInfo (Sys() is a *syscall.Stat_t with the host's owner) wrapped in something that implements
// FileInfoUidGid with the mapped owner; the documented precedence is the interface. Every entry of the listing must carry
// the owner the handler reported through it (and name, size and mode of the host entry), across batches. Oracle only.
type c16OwnedLister struct{ ents []os.FileInfo }

func (l c16OwnedLister) ListAt(out []os.FileInfo, off int64) (int, error) {
	if off >= int64(len(l.ents)) {
		return 0, io.EOF
	}
	n := copy(out, l.ents[off:])
	return n, nil
}

type c16OwnedHandlers struct {
	nullHandlers
	l c16OwnedLister
}

func (h c16OwnedHandlers) Filelist(r *sftp.Request) (sftp.ListerAt, error) {
	if r.Method == "List" {
		return h.l, nil
	}
	return oneLister{memInfo{"d", 0}}, nil
}

func c16OwnedListings(c *Ctx) {
	dir, err := os.MkdirTemp("", "vh-c16own-")
	if err != nil {
		return
	}
	defer os.RemoveAll(dir)
	old := sftp.MaxFilelist
	defer func() { sftp.MaxFilelist = old }()
	for _, B := range []int{1, 3, 100} {
		sftp.MaxFilelist = int64(B)
		for _, size := range []int{1, 4, 7} {
			var ents []os.FileInfo
			type want struct {
				name     string
				size     int64
				uid, gid uint32
				mode     os.FileMode
			}
			var wants []want
			type src struct {
				iface                  bool
				suid, sgid, iuid, igid uint32
			}
			var srcs []src
			for i := 0; i < size; i++ {
				name := fmt.Sprintf("o%d", i)
				os.WriteFile(filepath.Join(dir, name), make([]byte, 10+i), 0o640)
				// some entries carry the special bits (set-group-id, set-user-id, sticky, all three): part of the attributes reported
				if sp := []os.FileMode{0, os.ModeSetgid, os.ModeSetuid, os.ModeSticky | os.ModeSetgid, os.ModeSetuid | os.ModeSetgid | os.ModeSticky}[i%5]; sp != 0 {
					os.Chmod(filepath.Join(dir, name), 0o750|sp)
				}
				host, err := os.Lstat(filepath.Join(dir, name))
				if err != nil {
					return
				}
				uid, gid := uint32(70000+i), uint32(80000+i)
				if i%3 == 2 { // every third entry is a plain host entry: the owner the host reports
					ents = append(ents, host)
					u, g := c17HostOwner(host)
					wants = append(wants, want{name, int64(10 + i), u, g, host.Mode()})
					srcs = append(srcs, src{false, u, g, 0, 0})
					continue
				}
				ents = append(ents, c17Owned{host, uid, gid})
				wants = append(wants, want{name, int64(10 + i), uid, gid, host.Mode()})
				hu, hg := c17HostOwner(host)
				srcs = append(srcs, src{true, hu, hg, uid, gid})
			}
			h := c16OwnedHandlers{l: c16OwnedLister{ents}}
			p, err := newPair(pairOpt{reqServer: true, handlers: sftp.Handlers{FileGet: h, FilePut: h, FileCmd: h, FileList: h}})
			if err != nil {
				c.Diag("pair: %v", err)
				continue
			}
			got, lerr := p.Client.ReadDir("/d")
			p.Close()
			n := c.Case("ownedlisting", kvi("n", size), kvi("b", B))
			c.NT(n)
			c.Stat("owned_listing")
			ok, why := true, ""
			switch {
			case lerr != nil:
				ok, why = false, "ReadDir of entries that report their owner failed: "+lerr.Error()
			case len(got) != size:
				ok, why = false, fmt.Sprintf("directory of %d entries (batch %d) listed as %d entries", size, B, len(got))
			default:
				for i, fi := range got {
					st, _ := fi.Sys().(*sftp.FileStat)
					w := wants[i]
					if st != nil && fi.Mode() != w.mode {
						ok, why = false, fmt.Sprintf("entry %d (%s) listed with mode %v, the handler reported %v", i, fi.Name(), fi.Mode(), w.mode)
						break
					}
					if st == nil || fi.Name() != w.name || fi.Size() != w.size || st.UID != w.uid || st.GID != w.gid {
						var u, g uint32
						if st != nil {
							u, g = st.UID, st.GID
						}
						ok, why = false, fmt.Sprintf("entry %d listed as %q size %d owner %d/%d, the handler reported %q size %d owner %d/%d", i, fi.Name(), fi.Size(), u, g, w.name, w.size, w.uid, w.gid)
						break
					}
				}
			}
			c.Oracle(n, ok, why)
			// every listed entry against the model's fileStat_owner (coq/Mode/FileMode.v): which of its two sources the owner comes from
			if lerr == nil && len(got) == size {
				for i, fi := range got {
					st, _ := fi.Sys().(*sftp.FileStat)
					if st == nil {
						continue
					}
					sc := srcs[i]
					on := c.Case("listowner", kvi("b", B), kvi("i", i), kvb("statt", true), kvb("iface", sc.iface), kvx("suid", uint64(sc.suid)), kvx("sgid", uint64(sc.sgid)), kvx("iuid", uint64(sc.iuid)), kvx("igid", uint64(sc.igid)))
					c.Obs(on, kvx("uid", uint64(st.UID)), kvx("gid", uint64(st.GID)))
					c.Oracle(on, true, "")
					if sc.iface {
						c.NT(on)
					}
				}
			}
		}
	}
}
