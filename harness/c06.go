package main

// C06 — the wire encoding is lossless and the two codecs agree.

import (
	"bytes"
	"encoding/binary"
	"fmt"

	"github.com/pkg/sftp"
)

func init() { register("c06", runC06) }

// rawified: what codec A's decoder is expected to hold after decoding codec A's own bytes.
func decAExpect(p *sftp.VerifPacket, encA []byte) string {
	q := *p
	switch p.Kind {
	case "open":
		// body after id, path, pflags, flags
		off := 4 + 1 + 4 + 4 + len(p.S1) + 4 + 4
		q.HasRaw, q.Raw, q.Attrs = true, encA[off:], nil
	case "setstat", "fsetstat":
		off := 4 + 1 + 4 + 4 + len(p.S1) + 4
		q.HasRaw, q.Raw, q.Attrs = true, encA[off:], nil
	case "mkdir":
		q.HasRaw, q.Raw, q.Attrs = true, nil, nil
	case "fsync":
		q.Kind, q.S1 = "extother", "fsync@openssh.com"
		q.Data = append(binary.BigEndian.AppendUint32(nil, uint32(len(p.S1))), p.S1...)
	}
	return canon(&q)
}

func runC06(c *Ctx) {
	c.Rule("seeded structured packets: every request/response kind x all 32 attribute-flag subsets (exhaustive kind x subset grid first), ids/offsets at 0,1,2^31,2^32-1,2^63,2^64-1, " +
		"strings empty/long/non-UTF-8, payloads 0..70KiB, 0-3 extended pairs / name entries; each is marshalled by Go codec A and Go codec B and decoded by both; " +
		"non-trivial = packet with at least one string or payload field that is non-empty or a non-zero attribute flag set")
	c06InfoAttrs(c)
	per := 40
	if c.Thorough() {
		per = 1200
	}
	kinds := append(append([]string{}, requestKinds...), responseKinds...)
	do := func(p *sftp.VerifPacket) {
		n := c.Case("pkt", "p="+canon(p))
		c.Stat("kind_" + p.Kind)
		if p.S1 != "" || len(p.Data) > 0 || (p.Attrs != nil && p.Attrs.Flags != 0) || len(p.Names) > 0 || len(p.Pairs) > 0 {
			c.NT(n)
		}
		encA, errA := sftp.VerifEncA(p)
		encB, errB := sftp.VerifEncB(p)
		obs := []string{}
		ok, why := true, ""
		fail := func(f string, a ...any) {
			if ok {
				ok, why = false, fmt.Sprintf(f, a...)
			}
		}
		if errA != nil {
			obs = append(obs, "encA=none")
		} else {
			obs = append(obs, kvh("encA", encA))
			if len(encA) < 5 || int(binary.BigEndian.Uint32(encA)) != len(encA)-4 {
				fail("codec A: length prefix %d but %d bytes follow", binary.BigEndian.Uint32(encA), len(encA)-4)
			}
		}
		if errB != nil {
			obs = append(obs, "encB=none")
		} else {
			obs = append(obs, kvh("encB", encB))
			if len(encB) < 5 || int(binary.BigEndian.Uint32(encB)) != len(encB)-4 {
				fail("codec B: length prefix %d but %d bytes follow", binary.BigEndian.Uint32(encB), len(encB)-4)
			}
		}
		if errA == nil && errB == nil && !bytes.Equal(encA, encB) {
			fail("codecs disagree on %s: A=%x B=%x", p.Kind, trunc(encA), trunc(encB))
		}
		if errA != nil && errB != nil {
			fail("neither codec can encode %s", p.Kind)
		}
		if isRequestKind(p.Kind) && errA == nil {
			d, ek, pan := sftp.VerifDecA(encA[4], encA[5:])
			s := canon(d)
			if d == nil {
				s = "err:" + ek
			}
			obs = append(obs, "decA="+s)
			if pan {
				fail("codec A decoder panicked on its own encoding")
			} else if want := decAExpect(p, encA); s != want {
				fail("codec A round trip: got %s want %s", truncs(s), truncs(want))
			}
			if p.Kind != "init" {
				d2, ek2, pan2 := sftp.VerifDecBRequest(encA[4:])
				s2 := canon(d2)
				if d2 == nil {
					s2 = "err:" + ek2
				}
				obs = append(obs, "decBreq="+s2)
				if pan2 {
					fail("codec B decoder panicked on codec A bytes")
				}
				// codec B must accept codec A's bytes and recover the logical packet
				want := *p
				switch p.Kind {
				case "statvfs", "posixrename", "hardlink", "fsync", "extother":
					want = sftp.VerifPacket{Kind: "extother", ID: p.ID, S1: extName(p), Data: encA[4+1+4+4+len(extName(p)):]}
				}
				if w := canon(&want); s2 != w {
					fail("codec B on codec A bytes: got %s want %s", truncs(s2), truncs(w))
				}
			}
		}
		if !isRequestKind(p.Kind) && p.Kind != "version" && errA == nil {
			d2, ek2, pan2 := sftp.VerifDecBResponse(encA[4:])
			s2 := canon(d2)
			if d2 == nil {
				s2 = "err:" + ek2
			}
			obs = append(obs, "decBresp="+s2)
			if pan2 {
				fail("codec B response decoder panicked on codec A bytes")
			}
			want := *p
			if p.Kind == "statvfsreply" {
				want = sftp.VerifPacket{Kind: "extreplyother", ID: p.ID, Data: encA[9:]}
			}
			if w := canon(&want); s2 != w {
				fail("codec B response decode of codec A bytes: got %s want %s", truncs(s2), truncs(w))
			}
		}
		// INIT and VERSION carry no request id and have decoders of their own in codec B: they too must recover the logical packet
		// from codec A's bytes, every extension pair in its place
		if (p.Kind == "init" || p.Kind == "version") && errA == nil {
			d4, ek4, pan4 := sftp.VerifDecBInitVersion(encA[4:])
			s4 := canon(d4)
			if d4 == nil {
				s4 = "err:" + ek4
			}
			c.Stat("initversion_decB")
			obs = append(obs, "decBiv="+s4)
			if pan4 {
				fail("codec B %s decoder panicked on codec A bytes", p.Kind)
			} else if w := canon(p); s4 != w {
				fail("codec B %s decode of codec A bytes: got %s want %s", p.Kind, truncs(s4), truncs(w))
			}
		}
		// codec B decoding into a packet value that was used before (the values own slices a decoder may reuse): the result
		// must not depend on what the value held. The earlier content is a sibling of the same kind with more of everything.
		switch p.Kind {
		case "write", "data", "name", "attrs", "open", "setstat", "fsetstat", "mkdir":
			if errA == nil {
				sib := c06Sibling(p)
				if encS, errS := sftp.VerifEncA(sib); errS == nil {
					d3, ek3, pan3, covered := sftp.VerifDecBInto(encS[4:], encA[4:])
					if covered {
						s3 := canon(d3)
						if d3 == nil {
							s3 = "err:" + ek3
						}
						c.Stat("reuse_decodes")
						if pan3 {
							fail("codec B decoder panicked decoding into a used %s value", p.Kind)
						} else if w := canon(p); s3 != w {
							fail("codec B decode into a used %s value depends on its earlier content: got %s want %s", p.Kind, truncs(s3), truncs(w))
						}
					}
				}
			}
		}
		c.Obs(n, obs...)
		c.Oracle(n, ok, why)
	}
	// exhaustive grid kind x flag subset (flags matter only for attribute-carrying kinds)
	for _, k := range kinds {
		for _, f := range flagSubsets {
			switch k {
			case "open", "setstat", "fsetstat", "attrs":
				do(genPacket(c.Rng, k, f, false))
			}
		}
	}
	for _, k := range kinds {
		for i := 0; i < per; i++ {
			f := flagSubsets[c.Rng.Intn(len(flagSubsets))]
			do(genPacket(c.Rng, k, f, i%20 == 7))
		}
	}
	// attribute blocks on their own (what OPEN / SETSTAT / FSETSTAT carry and what ATTRS and NAME replies are made of): every
	// flag subset with 0 to 3 extended pairs, encoded by codec A, decoded by the attribute decoders of both codecs (kinds
	// attrsA / attrsB, compared with the model's attrs_dec); oracle: the decoded block is the one that was encoded, with
	// every extended pair in its place and nothing left over
	for rep := 0; rep < 1+per/20; rep++ {
		for _, f := range flagSubsets {
			a := genAttrs(c.Rng, f)
			for len(a.Ext) < rep%4 && f&0x80000000 != 0 {
				a.Ext = append(a.Ext, [2]string{genStr(c.Rng), genStr(c.Rng)})
			}
			enc, err := sftp.VerifEncA(&sftp.VerifPacket{Kind: "attrs", ID: 1, Attrs: a})
			if err != nil || len(enc) < 9 {
				continue
			}
			blk := append(append([]byte(nil), enc[9:]...), byte(rep), 0xee) // two trailing bytes that are not part of the block
			for _, which := range []string{"attrsA", "attrsB"} {
				var d *sftp.VerifAttrs
				var rest []byte
				var ek string
				if which == "attrsA" {
					d, rest, ek, _ = sftp.VerifUnmarshalAttrsA(blk)
				} else {
					d, rest, ek, _ = sftp.VerifUnmarshalAttrsB(blk)
				}
				n := c.Case(which, kvh("b", blk))
				if f != 0 {
					c.NT(n)
				}
				c.Stat("attrblock_" + which)
				if d == nil {
					c.Obs(n, "res=err:"+ek)
					c.Oracle(n, false, fmt.Sprintf("%s cannot decode a block codec A encoded (flags %x, %d extended pairs): %s", which, f, len(a.Ext), ek))
					continue
				}
				c.Obs(n, "res="+canonAttrs(d)+"/"+hexs(rest))
				if canonAttrs(d) != canonAttrs(a) || len(rest) != 2 {
					c.Oracle(n, false, fmt.Sprintf("%s: block with flags %x and %d extended pairs decodes to %s with %d bytes left over (2 expected)", which, f, len(a.Ext), truncs(canonAttrs(d)), len(rest)))
				} else {
					c.Oracle(n, true, "")
				}
			}
		}
	}
}

func extName(p *sftp.VerifPacket) string {
	switch p.Kind {
	case "statvfs":
		return "statvfs@openssh.com"
	case "posixrename":
		return "posix-rename@openssh.com"
	case "hardlink":
		return "hardlink@openssh.com"
	case "fsync":
		return "fsync@openssh.com"
	}
	return p.S1
}

func trunc(b []byte) []byte {
	if len(b) > 48 {
		return b[:48]
	}
	return b
}
func truncs(s string) string {
	if len(s) > 160 {
		return s[:160] + "..."
	}
	return s
}

// c06Sibling: a packet of the same kind whose slices are longer than p's (payload, name entries, extended attributes).
func c06Sibling(p *sftp.VerifPacket) *sftp.VerifPacket {
	q := *p
	q.ID = p.ID ^ 0x5a5a5a5a
	q.Data = append(append([]byte{}, p.Data...), bytes.Repeat([]byte{0xEE}, 37)...)
	ext := func(a *sftp.VerifAttrs) *sftp.VerifAttrs {
		var b sftp.VerifAttrs
		if a != nil {
			b = *a
		}
		b.Flags |= 0x80000000 | 0xf
		b.Ext = append(append([][2]string{}, b.Ext...), [2]string{"stale-type-1", "stale-data-1"}, [2]string{"stale-type-2", "stale-data-2"})
		return &b
	}
	if p.Attrs != nil || p.Kind == "attrs" || p.Kind == "open" || p.Kind == "setstat" || p.Kind == "fsetstat" || p.Kind == "mkdir" {
		q.Attrs = ext(p.Attrs)
		q.N2 = uint64(q.Attrs.Flags)
	}
	if p.Kind == "name" {
		q.Names = nil
		for _, e := range p.Names {
			e.Attrs = *ext(&e.Attrs)
			q.Names = append(q.Names, e)
		}
		for i := 0; i < 3; i++ {
			q.Names = append(q.Names, sftp.VerifName{Name: "stale-name", Long: "stale-long", Attrs: *ext(nil)})
		}
	}
	return &q
}
