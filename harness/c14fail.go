package main

import (
	"fmt"
	"io"
	"net"
	"os"
	"sync"
	"sync/atomic"
	"time"

	"github.com/pkg/sftp"
)

// c14 kind barrier-after-failed-send: "all relative speeds ... of the workers" with a transport that has refused one response
// earlier in the session (the session goes on, as it does in the code). Afterwards WRITEs on a handle and the CLOSE of that handle
// are pipelined as always: the CLOSE still waits for every one of them - the handler object is closed once, with no WriteAt running
// or starting afterwards, and every WRITE succeeds.
type c14SlowWriter struct {
	mu            sync.Mutex
	data          map[int64]int
	inflight      int32
	closeInflight int32
	late          int32
	closes        int32
	closed        int32
}

func (w *c14SlowWriter) WriteAt(b []byte, off int64) (int, error) {
	if atomic.LoadInt32(&w.closed) != 0 {
		atomic.AddInt32(&w.late, 1)
		return 0, os.ErrClosed
	}
	atomic.AddInt32(&w.inflight, 1)
	time.Sleep(15 * time.Millisecond)
	w.mu.Lock()
	w.data[off] = len(b)
	w.mu.Unlock()
	atomic.AddInt32(&w.inflight, -1)
	return len(b), nil
}

func (w *c14SlowWriter) Close() error {
	atomic.AddInt32(&w.closes, 1)
	atomic.AddInt32(&w.closeInflight, atomic.LoadInt32(&w.inflight))
	atomic.StoreInt32(&w.closed, 1)
	return nil
}

type c14SlowHandlers struct {
	nullHandlers
	w *c14SlowWriter
}

func (h c14SlowHandlers) Filewrite(r *sftp.Request) (io.WriterAt, error) { return h.w, nil }

func c14BarrierAfterFailedSend(c *Ctx) {
	for rep := 0; rep < 6; rep++ {
		alloc := rep%2 == 1
		k := []int{3, 12, 24}[rep%3]
		cn := c.Case("failedsend", kvs("srv", "rs"), kvb("alloc", alloc), kvi("writes", k), kvi("rep", rep))
		c.NT(cn)
		c.Stat("cases_barrier_after_failed_send")
		c1, c2 := net.Pipe()
		fc := &c18FlakyConn{Conn: c2}
		w := &c14SlowWriter{data: map[int64]int{}}
		h := c14SlowHandlers{w: w}
		var opts []sftp.RequestServerOption
		if alloc {
			opts = append(opts, sftp.WithRSAllocator())
		}
		rs := sftp.NewRequestServer(fc, sftp.Handlers{FileGet: h, FilePut: h, FileCmd: h, FileList: h}, opts...)
		done := make(chan error, 1)
		go func() { done <- rs.Serve(); rs.Close() }()
		why := ""
		do := func(fr []byte) *rawResp {
			c1.SetDeadline(time.Now().Add(5 * time.Second))
			if _, err := c1.Write(fr); err != nil {
				why = "harness: write: " + err.Error()
				return nil
			}
			r, err := readFrame(c1)
			if err != nil {
				why = "no-response: " + err.Error()
				return nil
			}
			return r
		}
		do(rawInit())
		hd := ""
		if r := do(rawOpen(1, "/w", 0x1a, 0, nil)); r != nil {
			hd, _ = r.handle()
		}
		if why == "" && hd == "" {
			why = "harness: open refused"
		}
		if why == "" {
			// one response is refused by the transport (nothing arrives for it); the session goes on
			fc.mu.Lock()
			fc.failNext = 1
			fc.mu.Unlock()
			c1.SetDeadline(time.Now().Add(5 * time.Second))
			c1.Write(rawPathOp(fxpStat, 2, "/w"))
			deadline := time.Now().Add(3 * time.Second)
			for time.Now().Before(deadline) {
				fc.mu.Lock()
				n := fc.failed
				fc.mu.Unlock()
				if n > 0 {
					break
				}
				time.Sleep(time.Millisecond)
			}
			do(rawPathOp(fxpStat, 3, "/w"))
		}
		if why == "" {
			var stream []byte
			for i := 0; i < k; i++ {
				stream = append(stream, rawWrite(uint32(100+i), hd, uint64(i*10), []byte("0123456789"))...)
			}
			stream = append(stream, rawHandleOp(fxpClose, 999, hd)...)
			c1.SetDeadline(time.Now().Add(10 * time.Second))
			go c1.Write(stream)
			for i := 0; i <= k && why == ""; i++ {
				r, err := readFrame(c1)
				if err != nil {
					why = fmt.Sprintf("missing-responses: %d of %d arrived: %v", i, k+1, err)
					break
				}
				code, isStatus := r.statusCode()
				wantID := uint32(100 + i)
				if i == k {
					wantID = 999
				}
				switch {
				case r.ID != wantID:
					why = fmt.Sprintf("wrong-id: response %d carries id %d, want %d", i, r.ID, wantID)
				case !isStatus || code != 0:
					why = fmt.Sprintf("transfer-failed: the request with id %d, pipelined before the CLOSE of its handle, was answered with status %d", r.ID, code)
				}
			}
		}
		c1.Close()
		select {
		case <-done:
		case <-time.After(5 * time.Second):
			if why == "" {
				why = "server-hang: Serve did not return within 5 s of closing the connection"
			}
		}
		switch {
		case why != "":
		case atomic.LoadInt32(&w.closes) != 1:
			why = fmt.Sprintf("close-count: the writer object was closed %d times", w.closes)
		case atomic.LoadInt32(&w.closeInflight) != 0:
			why = fmt.Sprintf("close-overtook-io: %d WriteAt calls were in flight inside Close() (a response earlier in the session had been refused by the transport)", w.closeInflight)
		case atomic.LoadInt32(&w.late) != 0:
			why = fmt.Sprintf("io-after-close: %d WriteAt calls started after Close()", w.late)
		}
		c.Oracle(cn, why == "", why)
	}
}
