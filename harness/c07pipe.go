package main

import (
	"bytes"
	"encoding/binary"
	"fmt"
	"strings"
	"time"
)

// c07 "pipeopen": the release clause under pipelining. After INIT (answered), n OPEN/OPENDIR requests for existing
// objects are written in one go, without waiting for any reply, followed by one of four endings (val): 0 = EOF,
// 1 = a frame cut short, 2 = a frame with a zero length field, 3 = an OPEN that does not decode. Whatever the server
// managed to open before it noticed the end must have been released when Serve returns (descriptor count back to the
// baseline for the os server; every handler object closed exactly once for the request server), without crash, hang or
// goroutine left. Responses are not compared here (a server may or may not answer requests it had queued).
func c07PipeOpenStream(n int, ending int) (prefix [][]byte, tail []byte) {
	prefix = [][]byte{rawInit()}
	names := []string{"/pre.txt", "/keep/k1", "/sentinel"}
	for i := 0; i < n; i++ {
		id := uint32(100 + i)
		if i%5 == 4 {
			tail = append(tail, rawPathOp(fxpOpendir, id, []string{"/keep", "/"}[i/5%2])...)
		} else {
			tail = append(tail, rawOpen(id, names[i%len(names)], 1, 0, nil)...)
		}
	}
	switch ending {
	case 1:
		fr := rawOpen(9001, "/pre.txt", 1, 0, nil)
		tail = append(tail, fr[:len(fr)-3]...)
	case 2:
		tail = append(tail, 0, 0, 0, 0)
	case 3:
		// OPEN whose path length points beyond the packet
		body := []byte{fxpOpen, 0, 0, 0x23, 0x29, 0, 0, 0, 200, 'x'}
		fr := make([]byte, 4, 4+len(body))
		binary.BigEndian.PutUint32(fr, uint32(len(body)))
		tail = append(tail, append(fr, body...)...)
	}
	return prefix, tail
}

func c07PipeOpen(srv string, alloc bool, work string, n, ending int) string {
	prefix, tail := c07PipeOpenStream(n, ending)
	_, _, problems := c07Stream(srv, alloc, work, prefix, tail)
	if len(problems) > 0 {
		return "FAIL " + fmt.Sprintf("pipelined-opens(n=%d,ending=%d): ", n, ending) + problems[0]
	}
	return "ok"
}

func c07PipeMutations(thorough bool) []c07Mut {
	counts := []int{3, 12, 40}
	if thorough {
		counts = []int{1, 3, 8, 12, 25, 40, 90}
	}
	var out []c07Mut
	for _, n := range counts {
		for e := 0; e < 4; e++ {
			reps := 2
			if thorough {
				reps = 5
			}
			for r := 0; r < reps; r++ {
				out = append(out, c07Mut{"pipeopen", n, r, uint64(e)})
			}
		}
	}
	// pipewrite: many transfers still unanswered when the stream ends (more than the packet manager's channels hold)
	for _, n := range []int{12, 24, 48} {
		for r := 0; r < 2; r++ {
			out = append(out, c07Mut{"pipewrite", n, r, 0})
		}
	}
	return out
}

// c07 "pipewrite": INIT, OPEN for writing (answered), then n WRITE requests on the handle in one go - 200 KiB each on the os
// server, 2000 bytes each on a backend whose WriteAt takes 20 ms - and the end of the stream right behind them, without the
// peer waiting for a single reply. All requests were received whole before the end: Serve has to finish them, answer or not,
// and return: no goroutine left behind, the file closed, every write in the file.
func c07PipeWrite(srv string, alloc bool, work string, n int) string {
	b := &c07Builder{srv: srv, s: &c07Session{name: "pipewrite", handles: map[int]string{}}}
	b.s.frames = append(b.s.frames, rawInit())
	h := b.open("pipewrite.bin", 0x1a, 0, nil, true)
	size := 200 << 10
	if srv == "req" {
		size = 2000
		c11WriteDelay = 20 * time.Millisecond
		defer func() { c11WriteDelay = 0 }()
	}
	var tail []byte
	for k := 0; k < n; k++ {
		data := bytes.Repeat([]byte{byte('a' + k%26)}, size)
		tail = append(tail, rawWrite(uint32(500+k), h, uint64(k*size), data)...)
	}
	_, snap, problems := c07Stream(srv, alloc, work, b.s.frames, tail)
	if len(problems) > 0 {
		return fmt.Sprintf("FAIL pipelined-writes(n=%d): ", n) + problems[0]
	}
	// every write is in the file
	for k, v := range snap {
		if strings.HasSuffix(k, "pipewrite.bin") {
			if !strings.Contains(v, fmt.Sprintf("size=%d ", n*size)) {
				return fmt.Sprintf("FAIL pipelined-writes(n=%d): the file is not the %d bytes written: %s", n, n*size, truncs(v))
			}
			return "ok"
		}
	}
	return "ok"
}
