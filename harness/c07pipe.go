package main

import (
	"encoding/binary"
	"fmt"
)

// c07 "pipeopen": the release clause under pipelining. After INIT (answered), n OPEN/OPENDIR requests for existing
// objects are written in one go, without waiting for any reply, followed by one of four endings (val): 0 = EOF,
// 1 = a frame cut short, 2 = a frame with a zero length field, 3 = an OPEN that does not decode. Whatever the server
// managed to open before it noticed the end must have been released when Serve returns (descriptor count back to the
// baseline for the os server; every handler object closed exactly once for the request server), without crash, hang or
// goroutine left. Responses are not compared here (a server may or may not answer requests it had queued).
func c07PipeOpenStream(n int, ending int) (prefix [][]byte, tail []byte) {
	prefix = [][]byte{rawInit()}
	names := []string{"/pre.txt", "/keep/k1", "/sentinel"}
	for i := 0; i < n; i++ {
		id := uint32(100 + i)
		if i%5 == 4 {
			tail = append(tail, rawPathOp(fxpOpendir, id, []string{"/keep", "/"}[i/5%2])...)
		} else {
			tail = append(tail, rawOpen(id, names[i%len(names)], 1, 0, nil)...)
		}
	}
	switch ending {
	case 1:
		fr := rawOpen(9001, "/pre.txt", 1, 0, nil)
		tail = append(tail, fr[:len(fr)-3]...)
	case 2:
		tail = append(tail, 0, 0, 0, 0)
	case 3:
		// OPEN whose path length points beyond the packet
		body := []byte{fxpOpen, 0, 0, 0x23, 0x29, 0, 0, 0, 200, 'x'}
		fr := make([]byte, 4, 4+len(body))
		binary.BigEndian.PutUint32(fr, uint32(len(body)))
		tail = append(tail, append(fr, body...)...)
	}
	return prefix, tail
}

func c07PipeOpen(srv string, alloc bool, work string, n, ending int) string {
	prefix, tail := c07PipeOpenStream(n, ending)
	_, _, problems := c07Stream(srv, alloc, work, prefix, tail)
	if len(problems) > 0 {
		return "FAIL " + fmt.Sprintf("pipelined-opens(n=%d,ending=%d): ", n, ending) + problems[0]
	}
	return "ok"
}

func c07PipeMutations(thorough bool) []c07Mut {
	counts := []int{3, 12, 40}
	if thorough {
		counts = []int{1, 3, 8, 12, 25, 40, 90}
	}
	var out []c07Mut
	for _, n := range counts {
		for e := 0; e < 4; e++ {
			reps := 2
			if thorough {
				reps = 5
			}
			for r := 0; r < reps; r++ {
				out = append(out, c07Mut{"pipeopen", n, r, uint64(e)})
			}
		}
	}
	return out
}
