package main

// Raw SFTP v3 frames composed and parsed by the harness itself (independent of the package's codecs).

import (
	"encoding/binary"
	"errors"
	"io"
)

const (
	fxpInit          = 1
	fxpVersion       = 2
	fxpOpen          = 3
	fxpClose         = 4
	fxpRead          = 5
	fxpWrite         = 6
	fxpLstat         = 7
	fxpFstat         = 8
	fxpSetstat       = 9
	fxpFsetstat      = 10
	fxpOpendir       = 11
	fxpReaddir       = 12
	fxpRemove        = 13
	fxpMkdir         = 14
	fxpRmdir         = 15
	fxpRealpath      = 16
	fxpStat          = 17
	fxpRename        = 18
	fxpReadlink      = 19
	fxpSymlink       = 20
	fxpStatus        = 101
	fxpHandle        = 102
	fxpData          = 103
	fxpName          = 104
	fxpAttrs         = 105
	fxpExtended      = 200
	fxpExtendedReply = 201
)

type rb struct{ b []byte }

func (r *rb) u8(v byte) *rb    { r.b = append(r.b, v); return r }
func (r *rb) u32(v uint32) *rb { r.b = binary.BigEndian.AppendUint32(r.b, v); return r }
func (r *rb) u64(v uint64) *rb { r.b = binary.BigEndian.AppendUint64(r.b, v); return r }
func (r *rb) str(s string) *rb { r.u32(uint32(len(s))); r.b = append(r.b, s...); return r }
func (r *rb) raw(s []byte) *rb { r.b = append(r.b, s...); return r }

// frame wraps a body (type byte onward) with its length prefix.
func frame(body []byte) []byte {
	out := binary.BigEndian.AppendUint32(nil, uint32(len(body)))
	return append(out, body...)
}
func pkt(typ byte, id uint32) *rb { return (&rb{}).u8(typ).u32(id) }

func rawInit() []byte { return frame((&rb{}).u8(fxpInit).u32(3).b) }
func rawOpen(id uint32, path string, pflags, aflags uint32, attrs []byte) []byte {
	return frame(pkt(fxpOpen, id).str(path).u32(pflags).u32(aflags).raw(attrs).b)
}
func rawHandleOp(typ byte, id uint32, h string) []byte { return frame(pkt(typ, id).str(h).b) }
func rawPathOp(typ byte, id uint32, p string) []byte   { return frame(pkt(typ, id).str(p).b) }
func rawRead(id uint32, h string, off uint64, l uint32) []byte {
	return frame(pkt(fxpRead, id).str(h).u64(off).u32(l).b)
}
func rawWrite(id uint32, h string, off uint64, data []byte) []byte {
	return frame(pkt(fxpWrite, id).str(h).u64(off).u32(uint32(len(data))).raw(data).b)
}
func rawSetstat(id uint32, p string, aflags uint32, attrs []byte) []byte {
	return frame(pkt(fxpSetstat, id).str(p).u32(aflags).raw(attrs).b)
}
func rawFsetstat(id uint32, h string, aflags uint32, attrs []byte) []byte {
	return frame(pkt(fxpFsetstat, id).str(h).u32(aflags).raw(attrs).b)
}
func rawMkdir(id uint32, p string) []byte { return frame(pkt(fxpMkdir, id).str(p).u32(0).b) }
func rawTwoPath(typ byte, id uint32, a, b string) []byte {
	return frame(pkt(typ, id).str(a).str(b).b)
}
func rawExtended(id uint32, name string, payload []byte) []byte {
	return frame(pkt(fxpExtended, id).str(name).raw(payload).b)
}

// attrBlock encodes the attribute fields selected by flags.
func attrBlock(flags uint32, size uint64, uid, gid, perm, atime, mtime uint32) []byte {
	r := &rb{}
	if flags&1 != 0 {
		r.u64(size)
	}
	if flags&2 != 0 {
		r.u32(uid).u32(gid)
	}
	if flags&4 != 0 {
		r.u32(perm)
	}
	if flags&8 != 0 {
		r.u32(atime).u32(mtime)
	}
	return r.b
}

type rawResp struct {
	Typ  byte
	ID   uint32
	Body []byte // after the id (after version for VERSION)
	Raw  []byte // whole frame incl. length
}

var errFrame = errors.New("bad frame")

// readFrame reads one frame from r.
func readFrame(r io.Reader) (*rawResp, error) {
	var hdr [4]byte
	if _, err := io.ReadFull(r, hdr[:]); err != nil {
		return nil, err
	}
	l := binary.BigEndian.Uint32(hdr[:])
	if l == 0 || l > 1<<24 {
		return nil, errFrame
	}
	body := make([]byte, l)
	if _, err := io.ReadFull(r, body); err != nil {
		return nil, err
	}
	resp := &rawResp{Typ: body[0], Raw: append(hdr[:], body...)}
	if len(body) >= 5 {
		resp.ID = binary.BigEndian.Uint32(body[1:5])
		resp.Body = body[5:]
	}
	return resp, nil
}

// splitFrames parses a byte stream into frames; returns frames and the unparsed remainder.
func splitFrames(b []byte) (out []*rawResp, rest []byte) {
	for len(b) >= 4 {
		l := binary.BigEndian.Uint32(b)
		if l == 0 || uint64(l)+4 > uint64(len(b)) {
			break
		}
		body := b[4 : 4+l]
		resp := &rawResp{Typ: body[0], Raw: b[:4+l]}
		if len(body) >= 5 {
			resp.ID = binary.BigEndian.Uint32(body[1:5])
			resp.Body = body[5:]
		}
		out = append(out, resp)
		b = b[4+l:]
	}
	return out, b
}

func (r *rawResp) statusCode() (uint32, bool) {
	if r.Typ != fxpStatus || len(r.Body) < 4 {
		return 0, false
	}
	return binary.BigEndian.Uint32(r.Body), true
}
func (r *rawResp) handle() (string, bool) {
	if r.Typ != fxpHandle || len(r.Body) < 4 {
		return "", false
	}
	l := binary.BigEndian.Uint32(r.Body)
	if uint64(l)+4 > uint64(len(r.Body)) {
		return "", false
	}
	return string(r.Body[4 : 4+l]), true
}
func (r *rawResp) data() ([]byte, bool) {
	if r.Typ != fxpData || len(r.Body) < 4 {
		return nil, false
	}
	l := binary.BigEndian.Uint32(r.Body)
	if uint64(l)+4 > uint64(len(r.Body)) {
		return nil, false
	}
	return r.Body[4 : 4+l], true
}
