package main

// C09 — a read-only server never changes the file system. Exhaustive sweep with raw frames against a real
// os-backed server configured ReadOnly(); obs `denied=` is compared with the Coq gate, the oracle is the snapshot.

import (
	"crypto/sha1"
	"fmt"
	"os"
	"path/filepath"
	"sort"
	"strings"
	"syscall"
	"time"

	"github.com/pkg/sftp"
)

func init() { register("c09", runC09) }

// snapshot of a tree: names, types, modes, sizes, contents, link targets, mtimes (ns), nlink
func treeSnapshot(root string) string {
	var lines []string
	filepath.Walk(root, func(p string, fi os.FileInfo, err error) error {
		if err != nil {
			lines = append(lines, "ERR "+p)
			return nil
		}
		rel, _ := filepath.Rel(root, p)
		st := fi.Sys().(*syscall.Stat_t)
		l := fmt.Sprintf("%s|%v|%d|%d.%d|%d|%d:%d", rel, fi.Mode(), fi.Size(), st.Mtim.Sec, st.Mtim.Nsec, st.Nlink, st.Uid, st.Gid)
		if fi.Mode()&os.ModeSymlink != 0 {
			t, _ := os.Readlink(p)
			l += "|->" + t
		} else if fi.Mode().IsRegular() {
			b, _ := os.ReadFile(p)
			l += fmt.Sprintf("|%x", sha1.Sum(b))
		}
		if fi.IsDir() && rel != "." {
			// directory mtimes change when entries are created/removed: that is the point
		}
		lines = append(lines, l)
		return nil
	})
	sort.Strings(lines)
	return strings.Join(lines, "\n")
}

func snapDiff(a, b string) string {
	am := map[string]bool{}
	for _, l := range strings.Split(a, "\n") {
		am[l] = true
	}
	var d []string
	for _, l := range strings.Split(b, "\n") {
		if !am[l] {
			d = append(d, "+"+l)
		}
		delete(am, l)
	}
	for l := range am {
		d = append(d, "-"+l)
	}
	sort.Strings(d)
	if len(d) > 4 {
		d = d[:4]
	}
	return strings.Join(d, " ; ")
}

func runC09(c *Ctx) {
	c.Rule("exhaustive: OPEN with all 64 pflag sets x 5 targets (existing file, missing, directory, symlink to file, dangling symlink); SETSTAT/FSETSTAT with all 16 attribute-flag subsets; " +
		"every other request type; extended requests hardlink/posix-rename/statvfs/fsync/unknown; handle-then-modify sequences; each against a fresh ReadOnly() server on a temp tree; " +
		"non-trivial = request that could modify the tree (any write/creat/trunc flag, any mutating type)")
	root, err := os.MkdirTemp("", "vh-c09-")
	if err != nil {
		c.Diag("mktemp: %v", err)
		return
	}
	defer os.RemoveAll(root)
	os.WriteFile(filepath.Join(root, "file"), []byte("0123456789"), 0o644)
	os.Mkdir(filepath.Join(root, "dir"), 0o755)
	os.WriteFile(filepath.Join(root, "dir", "inner"), []byte("x"), 0o600)
	os.Symlink("file", filepath.Join(root, "lnk"))
	os.Symlink("nowhere", filepath.Join(root, "dangling"))
	targets := []string{"file", "missing", "dir", "lnk", "dangling"}

	rs, err := newRawSession(pairOpt{readOnly: true})
	if err != nil {
		c.Diag("session: %v", err)
		return
	}
	defer func() { rs.Close() }()
	id := uint32(100)
	// one request: snapshot, send, snapshot; obs = denied?
	try := func(p *sftp.VerifPacket, fr []byte, mutating bool, extra string) *rawResp {
		before := treeSnapshot(root)
		id++
		resp, err := rs.do(fr)
		after := treeSnapshot(root)
		n := c.Case("ro", "p="+canon(p), kvs("x", extra))
		if mutating {
			c.NT(n)
		}
		c.Stat("kind_" + p.Kind)
		code, isStatus := uint32(999), false
		if err == nil && resp != nil {
			code, isStatus = resp.statusCode()
		}
		denied := isStatus && code == 3
		c.Obs(n, kvb("denied", denied))
		ok, why := true, ""
		if before != after {
			ok, why = false, fmt.Sprintf("read-only server changed the tree on %s: %s", truncs(canon(p)), snapDiff(before, after))
		} else if mutating && !denied {
			// a modifying attempt that failed for another reason (e.g. not-exist) is tolerated only if nothing changed; the
			// property asks for permission-denied on every such attempt
			ok, why = false, fmt.Sprintf("modifying request %s answered %v (status=%v code=%d), not permission-denied", truncs(canon(p)), resp != nil, isStatus, code)
		}
		if ok && !mutating && denied {
			// purely reading requests keep working on a read-only server (the harness runs as root: no file permission can be the reason)
			ok, why = false, fmt.Sprintf("reading request %s was refused with permission-denied by the read-only server", truncs(canon(p)))
		}
		if err != nil {
			ok, why = false, "no response: "+err.Error()
			rs.Close()
			rs, _ = newRawSession(pairOpt{readOnly: true})
		}
		c.Oracle(n, ok, why)
		if denied {
			c.Stat("denied")
		} else {
			c.Stat("allowed")
		}
		return resp
	}
	closeIfHandle := func(resp *rawResp) {
		if resp == nil {
			return
		}
		if h, ok := resp.handle(); ok {
			rs.do(rawHandleOp(fxpClose, 7, h))
		}
	}
	// OPEN: all 64 pflag sets x targets
	for _, t := range targets {
		for pf := uint32(0); pf < 64; pf++ {
			path := filepath.Join(root, t)
			p := &sftp.VerifPacket{Kind: "open", ID: id + 1, S1: path, N1: uint64(pf), N2: 0, HasRaw: true}
			mut := pf&(2|8|16) != 0
			resp := try(p, rawOpen(id+1, path, pf, 0, nil), mut, "t="+t)
			closeIfHandle(resp)
		}
	}
	// OPEN with permission attributes
	for _, pf := range []uint32{1, 9, 0x1a} {
		path := filepath.Join(root, "missing")
		blk := attrBlock(4, 0, 0, 0, 0o600, 0, 0)
		p := &sftp.VerifPacket{Kind: "open", ID: id + 1, S1: path, N1: uint64(pf), N2: 4, HasRaw: true, Raw: blk}
		resp := try(p, rawOpen(id+1, path, pf, 4, blk), pf&(2|8|16) != 0, "attrs")
		closeIfHandle(resp)
	}
	// OPEN that asks for reading only (or for nothing, or exclusively) but carries attributes: every attribute-flag subset on
	// every target, with values that differ from what is there - whatever the server makes of the attribute block, a
	// read-only server changes nothing (the tree snapshot includes mode, size, times and owner)
	for _, t := range targets {
		for _, pf := range []uint32{1, 0, 0x21, 5} {
			for fl := uint32(1); fl < 16; fl++ {
				path := filepath.Join(root, t)
				blk := attrBlock(fl, 3, 11, 12, 0o100600, 1000, 2000)
				p := &sftp.VerifPacket{Kind: "open", ID: id + 1, S1: path, N1: uint64(pf), N2: uint64(fl), HasRaw: true, Raw: blk}
				resp := try(p, rawOpen(id+1, path, pf, fl, blk), false, "attrs-t="+t)
				closeIfHandle(resp)
			}
		}
	}
	// SETSTAT with all 16 flag subsets, on file and dir
	for _, t := range []string{"file", "dir", "missing"} {
		for fl := uint32(0); fl < 16; fl++ {
			path := filepath.Join(root, t)
			blk := attrBlock(fl, 3, 11, 12, 0o100600, 1000, 2000)
			p := &sftp.VerifPacket{Kind: "setstat", ID: id + 1, S1: path, N2: uint64(fl), HasRaw: true, Raw: blk}
			try(p, rawSetstat(id+1, path, fl, blk), true, "t="+t)
		}
	}
	// handle-then-modify: open read-only, then WRITE / FSETSTAT through the handle
	hr, _ := rs.do(rawOpen(5, filepath.Join(root, "file"), 1, 0, nil))
	if h, ok := hr.handle(); ok {
		p := &sftp.VerifPacket{Kind: "write", ID: id + 1, S1: h, N1: 2, Data: []byte("ZZZ")}
		try(p, rawWrite(id+1, h, 2, []byte("ZZZ")), true, "via-handle")
		for fl := uint32(0); fl < 16; fl++ {
			blk := attrBlock(fl, 3, 11, 12, 0o100600, 1000, 2000)
			p := &sftp.VerifPacket{Kind: "fsetstat", ID: id + 1, S1: h, N2: uint64(fl), HasRaw: true, Raw: blk}
			try(p, rawFsetstat(id+1, h, fl, blk), true, "via-handle")
		}
		// reads still work
		p = &sftp.VerifPacket{Kind: "read", ID: id + 1, S1: h, N1: 0, N2: 4}
		resp := try(p, rawRead(id+1, h, 0, 4), false, "via-handle")
		if d, ok := resp.data(); !ok || string(d) != "0123" {
			c.Diag("read through read-only handle returned %q", d)
		}
		p = &sftp.VerifPacket{Kind: "fstat", ID: id + 1, S1: h}
		try(p, rawHandleOp(fxpFstat, id+1, h), false, "via-handle")
		p = &sftp.VerifPacket{Kind: "close", ID: id + 1, S1: h}
		try(p, rawHandleOp(fxpClose, id+1, h), false, "via-handle")
	}
	// every other request type
	f := filepath.Join(root, "file")
	d := filepath.Join(root, "dir")
	newp := filepath.Join(root, "newname")
	simple := []struct {
		kind string
		typ  byte
		path string
		mut  bool
	}{{"lstat", fxpLstat, f, false}, {"stat", fxpStat, f, false}, {"stat", fxpStat, newp, false}, {"opendir", fxpOpendir, d, false}, {"realpath", fxpRealpath, d, false},
		{"readlink", fxpReadlink, filepath.Join(root, "lnk"), false}, {"remove", fxpRemove, f, true}, {"remove", fxpRemove, newp, true},
		{"rmdir", fxpRmdir, d, true}, {"rmdir", fxpRmdir, filepath.Join(root, "dir", "x"), true}}
	for _, s := range simple {
		p := &sftp.VerifPacket{Kind: s.kind, ID: id + 1, S1: s.path}
		resp := try(p, rawPathOp(s.typ, id+1, s.path), s.mut, "")
		if s.kind == "opendir" {
			if h, ok := resp.handle(); ok {
				p := &sftp.VerifPacket{Kind: "readdir", ID: id + 1, S1: h}
				try(p, rawHandleOp(fxpReaddir, id+1, h), false, "")
				rs.do(rawHandleOp(fxpClose, 7, h))
			}
		}
	}
	p := &sftp.VerifPacket{Kind: "mkdir", ID: id + 1, S1: newp, HasRaw: true}
	try(p, rawMkdir(id+1, newp), true, "")
	for _, two := range []struct {
		kind string
		typ  byte
		a, b string
	}{{"rename", fxpRename, f, newp}, {"rename", fxpRename, newp, f}, {"symlink", fxpSymlink, f, newp}} {
		p := &sftp.VerifPacket{Kind: two.kind, ID: id + 1, S1: two.a, S2: two.b}
		try(p, rawTwoPath(two.typ, id+1, two.a, two.b), true, "")
	}
	// extended requests
	ext := func(kind, name string, payload []byte, s1, s2 string, mut bool) {
		p := &sftp.VerifPacket{Kind: kind, ID: id + 1, S1: s1, S2: s2}
		if kind == "extother" {
			p.S1, p.Data = name, payload
		}
		try(p, rawExtended(id+1, name, payload), mut, "")
	}
	ext("hardlink", "hardlink@openssh.com", (&rb{}).str(f).str(newp).b, f, newp, true)
	ext("hardlink", "hardlink@openssh.com", (&rb{}).str(newp).str(f).b, newp, f, true)
	ext("posixrename", "posix-rename@openssh.com", (&rb{}).str(f).str(newp).b, f, newp, true)
	ext("statvfs", "statvfs@openssh.com", (&rb{}).str(root).b, root, "", false)
	ext("extother", "fsync@openssh.com", (&rb{}).str("1").b, "", "", false)
	ext("extother", "copy-data@example.com", (&rb{}).str(f).str(newp).b, "", "", false)
	ext("extother", "", nil, "", "", false)
	// names that are NOT the modifying extensions but spell almost like them (letter case, padding, a missing or doubled
	// character): they name no extension this server has, so whatever the reply says the tree stays as it is - and with the
	// payload of the real extension a server that matched names loosely would carry the operation out
	for _, base := range []string{"hardlink@openssh.com", "posix-rename@openssh.com"} {
		at := strings.IndexByte(base, '@')
		for _, name := range []string{strings.ToUpper(base), strings.ToUpper(base[:1]) + base[1:], base[:at] + "@OpenSSH.com", base[:at] + "@openssh.COM",
			strings.ToUpper(base[:at]) + base[at:], base + " ", " " + base, base + "\x00", base[:len(base)-1], base + "m", strings.Replace(base, "-", "_", 1)} {
			if name == base {
				continue
			}
			ext("extother", name, (&rb{}).str(f).str(newp).b, "", "", false)
			c.Stat("near_miss_extension_names")
		}
	}
	// the request id is the peer's choice and has no bearing on what a request does: the same refusals for id 0 and 2^32-1
	for _, rid := range []uint32{0, 0xffffffff} {
		try(&sftp.VerifPacket{Kind: "mkdir", ID: rid, S1: newp, HasRaw: true}, rawMkdir(rid, newp), true, "rid")
		try(&sftp.VerifPacket{Kind: "remove", ID: rid, S1: f}, rawPathOp(fxpRemove, rid, f), true, "rid")
		try(&sftp.VerifPacket{Kind: "rename", ID: rid, S1: f, S2: newp}, rawTwoPath(fxpRename, rid, f, newp), true, "rid")
		try(&sftp.VerifPacket{Kind: "symlink", ID: rid, S1: f, S2: newp}, rawTwoPath(fxpSymlink, rid, f, newp), true, "rid")
		blk := attrBlock(4, 0, 0, 0, 0o100600, 0, 0)
		try(&sftp.VerifPacket{Kind: "setstat", ID: rid, S1: f, N2: 4, HasRaw: true, Raw: blk}, rawSetstat(rid, f, 4, blk), true, "rid")
		closeIfHandle(try(&sftp.VerifPacket{Kind: "open", ID: rid, S1: newp, N1: 0x1a, HasRaw: true}, rawOpen(rid, newp, 0x1a, 0, nil), true, "rid"))
		try(&sftp.VerifPacket{Kind: "hardlink", ID: rid, S1: f, S2: newp}, rawExtended(rid, "hardlink@openssh.com", (&rb{}).str(f).str(newp).b), true, "rid")
		try(&sftp.VerifPacket{Kind: "posixrename", ID: rid, S1: f, S2: newp}, rawExtended(rid, "posix-rename@openssh.com", (&rb{}).str(f).str(newp).b), true, "rid")
		c.Stat("requests_with_extreme_ids")
	}
	if c.Thorough() {
		// random sequences of the above kinds
		for i := 0; i < 3000; i++ {
			t := targets[c.Rng.Intn(len(targets))]
			path := filepath.Join(root, t)
			switch c.Rng.Intn(4) {
			case 0:
				pf := uint32(c.Rng.Intn(64))
				p := &sftp.VerifPacket{Kind: "open", ID: id + 1, S1: path, N1: uint64(pf), HasRaw: true}
				closeIfHandle(try(p, rawOpen(id+1, path, pf, 0, nil), pf&(2|8|16) != 0, "rnd"))
			case 1:
				fl := uint32(c.Rng.Intn(16))
				blk := attrBlock(fl, uint64(c.Rng.Intn(20)), 1, 2, 0o100000|uint32(c.Rng.Intn(512)), 5, 6)
				p := &sftp.VerifPacket{Kind: "setstat", ID: id + 1, S1: path, N2: uint64(fl), HasRaw: true, Raw: blk}
				try(p, rawSetstat(id+1, path, fl, blk), true, "rnd")
			case 2:
				p := &sftp.VerifPacket{Kind: "remove", ID: id + 1, S1: path}
				try(p, rawPathOp(fxpRemove, id+1, path), true, "rnd")
			case 3:
				o := filepath.Join(root, targets[c.Rng.Intn(len(targets))])
				p := &sftp.VerifPacket{Kind: "hardlink", ID: id + 1, S1: path, S2: o + "2"}
				try(p, rawExtended(id+1, "hardlink@openssh.com", (&rb{}).str(path).str(o+"2").b), true, "rnd")
			}
		}
	}
	c09Bursts(c, root)
}

// c09Bursts (kind roburst): modifying requests pipelined - written in one go, without waiting for the replies - to a read-only
// server: every single one is answered permission-denied, each reply carries the id of its own request (every id exactly
// once), and the tree is untouched.
func c09Bursts(c *Ctx, root string) {
	for rep := 0; rep < 6; rep++ {
		rs, err := newRawSession(pairOpt{readOnly: true, alloc: rep%2 == 1})
		if err != nil {
			c.Diag("roburst session: %v", err)
			return
		}
		before := treeSnapshot(root)
		n := 6 + 6*rep
		var stream []byte
		for k := 0; k < n; k++ {
			id := uint32(7000 + 13*k)
			path := filepath.Join(root, []string{"file", "dir", "newdir", "missing"}[k%4])
			switch k % 5 {
			case 0:
				stream = append(stream, rawMkdir(id, path+"x")...)
			case 1:
				stream = append(stream, rawPathOp(fxpRemove, id, path)...)
			case 2:
				stream = append(stream, rawSetstat(id, path, 4, attrBlock(4, 0, 0, 0, 0o600, 0, 0))...)
			case 3:
				stream = append(stream, rawTwoPath(fxpRename, id, path, path+"y")...)
			default:
				stream = append(stream, rawOpen(id, path, 0x1a, 0, nil)...)
			}
		}
		rs.conn.SetDeadline(time.Now().Add(10 * time.Second))
		go rs.conn.Write(stream)
		seen := map[uint32]int{}
		codes := map[uint32]int{}
		got := 0
		for ; got < n; got++ {
			fr, err := readFrame(rs.conn)
			if err != nil {
				break
			}
			seen[fr.ID]++
			if code, isStatus := fr.statusCode(); isStatus {
				codes[code]++
			} else {
				codes[999]++
			}
		}
		rs.Close()
		after := treeSnapshot(root)
		cn := c.Case("roburst", kvi("n", n), kvb("alloc", rep%2 == 1))
		c.NT(cn)
		c.Stat("roburst_cases")
		ok, why := true, ""
		switch {
		case got != n:
			ok, why = false, fmt.Sprintf("pipelined-refusals: %d replies for %d pipelined modifying requests", got, n)
		case codes[3] != n:
			ok, why = false, fmt.Sprintf("pipelined-refusals: %d of %d pipelined modifying requests were answered permission-denied (%v)", codes[3], n, codes)
		case before != after:
			ok, why = false, "read-only server changed the tree under pipelined requests: "+snapDiff(before, after)
		default:
			for k := 0; k < n; k++ {
				if seen[uint32(7000+13*k)] != 1 {
					ok, why = false, fmt.Sprintf("pipelined-refusals: the refusal of request id %d arrived %d times (ids seen: %d distinct for %d requests)", 7000+13*k, seen[uint32(7000+13*k)], len(seen), n)
					break
				}
			}
		}
		c.Oracle(cn, ok, why)
	}
}
