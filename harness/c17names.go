package main

import (
	"encoding/binary"
	"fmt"
	"os"
	"os/user"
	"path/filepath"
	"strings"
	"time"
)

// c17 kind longname_names (os-backed server, raw READDIR): the long name of a listed entry agrees with its structured attributes
// also where the server shows NAMES: the owner column is the name the user database gives for the entry's uid, the group column
// the name the GROUP database gives for its gid (the number itself where the database has no entry). The entries are chowned to
// ids whose user and group names differ on this host (and to ids neither database knows); needs root, recorded as skipped otherwise.
func c17LongNameNames(c *Ctx) {
	if os.Geteuid() != 0 {
		c.Stat("longname_names_skipped_not_root")
		return
	}
	dir, err := os.MkdirTemp("", "vh-c17ln-")
	if err != nil {
		return
	}
	defer os.RemoveAll(dir)
	nameOfUser := func(id uint32) string {
		if u, err := user.LookupId(fmt.Sprint(id)); err == nil {
			return u.Username
		}
		return fmt.Sprint(id)
	}
	nameOfGroup := func(id uint32) string {
		if g, err := user.LookupGroupId(fmt.Sprint(id)); err == nil {
			return g.Name
		}
		return fmt.Sprint(id)
	}
	// ids 0..200 for which the two databases give different names, plus fixed ones
	type own struct{ uid, gid uint32 }
	owners := []own{{0, 0}, {54321, 54322}}
	for id := uint32(1); id <= 200 && len(owners) < 8; id++ {
		if nameOfUser(id) != nameOfGroup(id) {
			owners = append(owners, own{id, id}, own{0, id})
		}
	}
	want := map[string]own{}
	for i, o := range owners {
		name := fmt.Sprintf("o%02d", i)
		p := filepath.Join(dir, name)
		os.WriteFile(p, []byte("x"), 0o644)
		if err := os.Chown(p, int(o.uid), int(o.gid)); err != nil {
			c.Diag("longname_names: chown: %v", err)
			return
		}
		want[name] = o
	}
	for _, alloc := range []bool{false, true} {
		rs, err := newRawSession(pairOpt{alloc: alloc})
		if err != nil {
			c.Diag("longname_names: %v", err)
			return
		}
		resp, err := rs.do(rawPathOp(fxpOpendir, 1, dir))
		h := ""
		if err == nil {
			h, _ = resp.handle()
		}
		seen := 0
		for h != "" {
			r, err := rs.do(rawHandleOp(fxpReaddir, 2, h))
			if err != nil || r.Typ != fxpName || len(r.Body) < 4 {
				break
			}
			b := r.Body
			cnt := int(binary.BigEndian.Uint32(b))
			b = b[4:]
			str := func() (string, bool) {
				if len(b) < 4 {
					return "", false
				}
				l := int(binary.BigEndian.Uint32(b))
				if 4+l > len(b) {
					return "", false
				}
				s := string(b[4 : 4+l])
				b = b[4+l:]
				return s, true
			}
			for i := 0; i < cnt; i++ {
				name, ok1 := str()
				long, ok2 := str()
				if !ok1 || !ok2 || len(b) < 4 {
					break
				}
				fl := binary.BigEndian.Uint32(b)
				b = b[4:]
				var uid, gid uint32
				if fl&1 != 0 && len(b) >= 8 {
					b = b[8:]
				}
				if fl&2 != 0 && len(b) >= 8 {
					uid, gid = binary.BigEndian.Uint32(b), binary.BigEndian.Uint32(b[4:])
					b = b[8:]
				}
				if fl&4 != 0 && len(b) >= 4 {
					b = b[4:]
				}
				if fl&8 != 0 && len(b) >= 8 {
					b = b[8:]
				}
				o, mine := want[name]
				if !mine {
					continue
				}
				seen++
				cn := c.Case("longname_names", kvs("name", name), kvx("uid", uint64(o.uid)), kvx("gid", uint64(o.gid)), kvb("alloc", alloc))
				c.NT(cn)
				c.Stat("longname_names")
				f := strings.Fields(long)
				why := ""
				switch {
				case uid != o.uid || gid != o.gid:
					why = fmt.Sprintf("attributes: the entry is owned by %d:%d, the attribute block says %d:%d", o.uid, o.gid, uid, gid)
				case len(f) < 4:
					why = "long name has fewer than four columns: " + long
				case f[2] != nameOfUser(o.uid):
					why = fmt.Sprintf("longname-owner: the owner column shows %q, uid %d is user %q", f[2], o.uid, nameOfUser(o.uid))
				case f[3] != nameOfGroup(o.gid):
					why = fmt.Sprintf("longname-group: the group column shows %q, gid %d is group %q (the user database calls that number %q)", f[3], o.gid, nameOfGroup(o.gid), nameOfUser(o.gid))
				}
				c.Oracle(cn, why == "", why)
			}
		}
		rs.Close()
		if seen == 0 {
			c.Diag("longname_names: no entry of the test directory was listed")
		}
	}
}

// c17 kind fstat_handle: the attributes FSTAT reports are those of the OPEN file, whatever has happened to its name since: the
// file is opened through the client, then renamed away (another file, with another size, mode and time, takes the name) or
// removed; File.Stat through the still-open handle reports size, mode, modification time and owner of the file that was opened.
func c17FstatFollowsHandle(c *Ctx) {
	dir, err := os.MkdirTemp("", "vh-c17fh-")
	if err != nil {
		return
	}
	defer os.RemoveAll(dir)
	for i, how := range []string{"renamed-away-and-replaced", "renamed-away", "removed", "replaced-by-rename-over"} {
		for _, alloc := range []bool{false, true} {
			name := filepath.Join(dir, fmt.Sprintf("f%d%v", i, alloc))
			os.WriteFile(name, []byte("the original content"), 0o640)
			os.Chtimes(name, time.Unix(1500000000, 0), time.Unix(1400000000, 0))
			want, _ := os.Stat(name)
			cn := c.Case("fstat_handle", kvs("how", how), kvb("alloc", alloc))
			c.NT(cn)
			c.Stat("fstat_handle_cases")
			p, err := newPair(pairOpt{alloc: alloc})
			if err != nil {
				c.Oracle(cn, false, "harness: "+err.Error())
				continue
			}
			f, err := p.Client.Open(name)
			if err != nil {
				p.Close()
				c.Oracle(cn, false, "harness: open: "+err.Error())
				continue
			}
			other := func(at string) {
				os.WriteFile(at, []byte("x"), 0o600)
				os.Chtimes(at, time.Unix(1600000000, 0), time.Unix(1600000001, 0))
			}
			switch how {
			case "renamed-away-and-replaced":
				os.Rename(name, name+".moved")
				other(name)
			case "renamed-away":
				os.Rename(name, name+".moved")
			case "removed":
				os.Remove(name)
			case "replaced-by-rename-over":
				other(name + ".new")
				os.Rename(name+".new", name)
			}
			fi, serr := f.Stat()
			f.Close()
			p.Close()
			why := ""
			switch {
			case serr != nil:
				why = fmt.Sprintf("fstat-by-name: File.Stat on an open handle whose file was %s failed: %v", how, serr)
			case fi.Size() != want.Size() || fi.Mode() != want.Mode() || fi.ModTime().Unix() != want.ModTime().Unix():
				why = fmt.Sprintf("fstat-by-name: the open file has size %d mode %v mtime %d; File.Stat after it was %s reports size %d mode %v mtime %d", want.Size(), want.Mode(), want.ModTime().Unix(), how, fi.Size(), fi.Mode(), fi.ModTime().Unix())
			}
			c.Oracle(cn, why == "", why)
		}
	}
}
