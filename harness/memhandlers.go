package main

// memFS: a small in-memory backend for the request server (own store: never sftp.InMemHandler).

import (
	"errors"
	"fmt"
	"io"
	"os"
	"sync"
	"time"

	"github.com/pkg/sftp"
)

type memFile struct {
	mu   sync.Mutex
	data []byte
	// failure plans, keyed by the offset of the ReadAt / WriteAt call: the call fails with an error that the request server
	// turns into the given status code. A failing ReadAt first fills in the bytes it "did get" (all but the last one) and
	// returns their count with the error, as io.ReaderAt allows; a failing WriteAt stores nothing.
	rfail, wfail map[uint64]uint32
	// the generic failure (status 4) is reported as an error wrapping io.ErrUnexpectedEOF - what io.ReadFull or a
	// SectionReader gives when the storage behind a file ends early; it is a failure like any other, not an end of file
	unexpectedEOF bool
}

func memPlanErr(code uint32) error {
	switch code {
	case 2:
		return os.ErrNotExist
	case 3:
		return os.ErrPermission
	case 8:
		return sftp.ErrSSHFxOpUnsupported
	}
	return errMemBadRegion
}

var errMemBadRegion = errors.New("memFile: unreadable region")

func (f *memFile) ReadAt(b []byte, off int64) (int, error) {
	f.mu.Lock()
	defer f.mu.Unlock()
	if code, bad := f.rfail[uint64(off)]; bad {
		n := 0
		if off < int64(len(f.data)) {
			if n = copy(b, f.data[off:]); n == len(b) && n > 0 {
				n--
			}
		}
		if code == 4 && f.unexpectedEOF {
			return n, fmt.Errorf("memFile: storage ended early: %w", io.ErrUnexpectedEOF)
		}
		return n, memPlanErr(code)
	}
	if off >= int64(len(f.data)) {
		return 0, io.EOF
	}
	n := copy(b, f.data[off:])
	if n < len(b) {
		return n, io.EOF
	}
	return n, nil
}
func (f *memFile) WriteAt(b []byte, off int64) (int, error) {
	f.mu.Lock()
	defer f.mu.Unlock()
	if code, bad := f.wfail[uint64(off)]; bad {
		return 0, memPlanErr(code)
	}
	if need := int(off) + len(b); len(b) > 0 && need > len(f.data) {
		f.data = append(f.data, make([]byte, need-len(f.data))...)
	}
	if len(b) > 0 {
		copy(f.data[off:], b)
	}
	return len(b), nil
}
func (f *memFile) bytes() []byte {
	f.mu.Lock()
	defer f.mu.Unlock()
	return append([]byte(nil), f.data...)
}

type memFS struct {
	mu    sync.Mutex
	files map[string]*memFile
}

func newMemFS() *memFS { return &memFS{files: map[string]*memFile{}} }
func (m *memFS) get(name string, create bool) *memFile {
	m.mu.Lock()
	defer m.mu.Unlock()
	f := m.files[name]
	if f == nil && create {
		f = &memFile{}
		m.files[name] = f
	}
	return f
}
func (m *memFS) handlers() sftp.Handlers {
	return sftp.Handlers{FileGet: m, FilePut: m, FileCmd: m, FileList: m}
}
func (m *memFS) Fileread(r *sftp.Request) (io.ReaderAt, error) {
	f := m.get(r.Filepath, false)
	if f == nil {
		return nil, os.ErrNotExist
	}
	return f, nil
}
func (m *memFS) Filewrite(r *sftp.Request) (io.WriterAt, error) { return m.get(r.Filepath, true), nil }
func (m *memFS) OpenFile(r *sftp.Request) (sftp.WriterAtReaderAt, error) {
	return m.get(r.Filepath, true), nil
}
func (m *memFS) Filecmd(r *sftp.Request) error {
	switch r.Method {
	case "Setstat":
		f := m.get(r.Filepath, false)
		if f == nil {
			return os.ErrNotExist
		}
		if r.AttrFlags().Size {
			sz := int(r.Attributes().Size)
			f.mu.Lock()
			if sz < len(f.data) {
				f.data = f.data[:sz]
			} else {
				f.data = append(f.data, make([]byte, sz-len(f.data))...)
			}
			f.mu.Unlock()
		}
		return nil
	case "Remove":
		m.mu.Lock()
		delete(m.files, r.Filepath)
		m.mu.Unlock()
		return nil
	}
	return nil
}

type memInfo struct {
	name string
	size int64
}

func (i memInfo) Name() string       { return i.name }
func (i memInfo) Size() int64        { return i.size }
func (i memInfo) Mode() os.FileMode  { return 0o644 }
func (i memInfo) ModTime() time.Time { return time.Unix(1700000000, 0) }
func (i memInfo) IsDir() bool        { return false }
func (i memInfo) Sys() any           { return nil }

type oneLister struct{ fi os.FileInfo }

func (l oneLister) ListAt(out []os.FileInfo, off int64) (int, error) {
	if off > 0 || len(out) == 0 {
		return 0, io.EOF
	}
	out[0] = l.fi
	return 1, io.EOF
}
func (m *memFS) Filelist(r *sftp.Request) (sftp.ListerAt, error) {
	f := m.get(r.Filepath, false)
	if f == nil {
		return nil, os.ErrNotExist
	}
	return oneLister{memInfo{r.Filepath, int64(len(f.bytes()))}}, nil
}
