package main

// Shared machinery of the families c02, c14, c18: gated in-memory request-server backend, server instances built
// here (so the server object is available), response collector, socketpair transport (half-close).
// All identifiers carry the prefix pg.

import (
	"errors"
	"fmt"
	"io"
	"math/rand"
	"net"
	"os"
	"path"
	"runtime"
	"sort"
	"strings"
	"sync"
	"sync/atomic"
	"syscall"
	"time"

	"github.com/pkg/sftp"
)

// ---------------------------------------------------------------- gates

type pgCall struct {
	kind string // read | write | list | cmd
	args string
	seq  int
	ch   chan struct{} // closed by the harness: the call may proceed
	done chan struct{} // closed by the call when it has returned its result
}

// pgHub broadcasts "something happened" to whoever waits (gate arrivals, responses, writer progress).
type pgHub struct {
	mu sync.Mutex
	ch chan struct{}
}

func newPgHub() *pgHub { return &pgHub{ch: make(chan struct{})} }
func (h *pgHub) tick() {
	h.mu.Lock()
	close(h.ch)
	h.ch = make(chan struct{})
	h.mu.Unlock()
}

// wait returns a channel closed at the next tick; take it BEFORE evaluating the condition waited for.
func (h *pgHub) wait() chan struct{} {
	h.mu.Lock()
	defer h.mu.Unlock()
	return h.ch
}

type pgGate struct {
	mu      sync.Mutex
	free    bool
	blocked []*pgCall
	total   int
	hub     *pgHub
}

func newPgGate(free bool, hub *pgHub) *pgGate { return &pgGate{free: free, hub: hub} }

func (g *pgGate) signal() { g.hub.tick() }

func (g *pgGate) arrivals() int {
	g.mu.Lock()
	defer g.mu.Unlock()
	return g.total
}

// enter registers one backend call; the caller then blocks on the returned call's ch.
func (g *pgGate) enter(kind, args string) *pgCall {
	c := &pgCall{kind: kind, args: args, ch: make(chan struct{}), done: make(chan struct{})}
	g.mu.Lock()
	g.total++
	c.seq = g.total
	if g.free {
		close(c.ch)
	} else {
		g.blocked = append(g.blocked, c)
	}
	g.mu.Unlock()
	g.signal()
	return c
}

func (g *pgGate) snapshot() []*pgCall {
	g.mu.Lock()
	defer g.mu.Unlock()
	return append([]*pgCall(nil), g.blocked...)
}

func (g *pgGate) count() int {
	g.mu.Lock()
	defer g.mu.Unlock()
	return len(g.blocked)
}

func (g *pgGate) open(c *pgCall) {
	g.mu.Lock()
	for i, b := range g.blocked {
		if b == c {
			g.blocked = append(g.blocked[:i], g.blocked[i+1:]...)
			close(c.ch)
			break
		}
	}
	g.mu.Unlock()
}

// setFree opens everything and lets all later calls pass (used on exit paths so no server goroutine stays blocked).
func (g *pgGate) setFree() {
	g.mu.Lock()
	g.free = true
	for _, b := range g.blocked {
		close(b.ch)
	}
	g.blocked = nil
	g.mu.Unlock()
}

// ---------------------------------------------------------------- in-memory store

type pgInfo struct {
	name string
	size int64
	mode os.FileMode
}

func (f pgInfo) Name() string       { return f.name }
func (f pgInfo) Size() int64        { return f.size }
func (f pgInfo) Mode() os.FileMode  { return f.mode }
func (f pgInfo) ModTime() time.Time { return time.Unix(1500000000, 0) }
func (f pgInfo) IsDir() bool        { return f.mode.IsDir() }
func (f pgInfo) Sys() any           { return nil }

type pgStore struct {
	g     *pgGate
	mu    sync.Mutex
	files map[string][]byte
	dirs  map[string]bool
	objs  []*pgObj
	// putOnly: see handlers()
	putOnly bool
}

func newPgStore(g *pgGate) *pgStore {
	return &pgStore{g: g, files: map[string][]byte{}, dirs: map[string]bool{"/": true}}
}

func (s *pgStore) handlers() sftp.Handlers {
	if s.putOnly {
		// FilePut without OpenFileWriter: handles opened for writing are served through Filewrite (method "Put")
		return sftp.Handlers{FileGet: s, FilePut: pgPutOnly{s}, FileCmd: s, FileList: s}
	}
	return sftp.Handlers{FileGet: s, FilePut: s, FileCmd: s, FileList: s}
}

type pgPutOnly struct{ s *pgStore }

func (p pgPutOnly) Filewrite(r *sftp.Request) (io.WriterAt, error) { return p.s.Filewrite(r) }

func (s *pgStore) putFile(p string, b []byte) { s.mu.Lock(); s.files[p] = b; s.mu.Unlock() }
func (s *pgStore) putDir(p string)            { s.mu.Lock(); s.dirs[p] = true; s.mu.Unlock() }
func (s *pgStore) content(p string) ([]byte, bool) {
	s.mu.Lock()
	defer s.mu.Unlock()
	b, ok := s.files[p]
	return append([]byte(nil), b...), ok
}

// pgObj is what Fileread/Filewrite/OpenFile/Filelist(List) hand to the server.
type pgObj struct {
	st            *pgStore
	path          string
	kind          string // r | w | rw | dir
	inflight      int32
	closed        int32
	closes        int32
	closeInflight int32 // in-flight calls observed inside Close()
	late          int32 // calls that started after Close()
	calls         int32
}

func (s *pgStore) newObj(p, kind string) *pgObj {
	o := &pgObj{st: s, path: p, kind: kind}
	s.mu.Lock()
	s.objs = append(s.objs, o)
	s.mu.Unlock()
	return o
}

func (o *pgObj) begin(kind string, off int64, n int) *pgCall {
	atomic.AddInt32(&o.inflight, 1)
	atomic.AddInt32(&o.calls, 1)
	if atomic.LoadInt32(&o.closed) != 0 {
		atomic.AddInt32(&o.late, 1)
	}
	c := o.st.g.enter(kind, fmt.Sprintf("%s@%d+%d", o.path, off, n))
	<-c.ch
	return c
}

func (o *pgObj) end(c *pgCall) {
	atomic.AddInt32(&o.inflight, -1)
	close(c.done)
}

func (o *pgObj) ReadAt(p []byte, off int64) (int, error) {
	c := o.begin("read", off, len(p))
	defer o.end(c)
	o.st.mu.Lock()
	defer o.st.mu.Unlock()
	b, ok := o.st.files[o.path]
	if !ok {
		return 0, os.ErrNotExist
	}
	if off < 0 || off >= int64(len(b)) {
		return 0, io.EOF
	}
	n := copy(p, b[off:])
	if n < len(p) {
		return n, io.EOF
	}
	return n, nil
}

const pgMaxFile = 4 << 20

func (o *pgObj) WriteAt(p []byte, off int64) (int, error) {
	c := o.begin("write", off, len(p))
	defer o.end(c)
	if off < 0 || off+int64(len(p)) > pgMaxFile {
		return 0, errors.New("offset out of range")
	}
	o.st.mu.Lock()
	defer o.st.mu.Unlock()
	b, ok := o.st.files[o.path]
	if !ok {
		return 0, os.ErrNotExist
	}
	if need := int(off) + len(p); need > len(b) {
		nb := make([]byte, need)
		copy(nb, b)
		b = nb
	}
	copy(b[off:], p)
	o.st.files[o.path] = b
	return len(p), nil
}

func (o *pgObj) ListAt(ls []os.FileInfo, off int64) (int, error) {
	c := o.begin("list", off, len(ls))
	defer o.end(c)
	o.st.mu.Lock()
	defer o.st.mu.Unlock()
	ents := o.st.childrenLocked(o.path)
	if off >= int64(len(ents)) {
		return 0, io.EOF
	}
	n := copy(ls, ents[off:])
	if n < len(ls) {
		return n, io.EOF
	}
	return n, nil
}

func (o *pgObj) Close() error {
	atomic.StoreInt32(&o.closeInflight, atomic.LoadInt32(&o.inflight))
	atomic.StoreInt32(&o.closed, 1)
	atomic.AddInt32(&o.closes, 1)
	return nil
}

func (s *pgStore) childrenLocked(dir string) []os.FileInfo {
	var out []os.FileInfo
	for p, b := range s.files {
		if path.Dir(p) == dir {
			out = append(out, pgInfo{path.Base(p), int64(len(b)), 0o644})
		}
	}
	for p := range s.dirs {
		if p != "/" && path.Dir(p) == dir {
			out = append(out, pgInfo{path.Base(p), 0, os.ModeDir | 0o755})
		}
	}
	sort.Slice(out, func(i, j int) bool { return out[i].Name() < out[j].Name() })
	return out
}

// pgStatLister answers Stat/Lstat/Fstat: one entry, looked up when its gate opens.
type pgStatLister struct {
	st   *pgStore
	path string
}

func (l *pgStatLister) ListAt(ls []os.FileInfo, off int64) (int, error) {
	c := l.st.g.enter("list", "stat:"+l.path)
	<-c.ch
	defer close(c.done)
	l.st.mu.Lock()
	defer l.st.mu.Unlock()
	if len(ls) == 0 || off > 0 {
		return 0, io.EOF
	}
	if b, ok := l.st.files[l.path]; ok {
		ls[0] = pgInfo{path.Base(l.path), int64(len(b)), 0o644}
		return 1, io.EOF
	}
	if l.st.dirs[l.path] {
		ls[0] = pgInfo{path.Base(l.path), 0, os.ModeDir | 0o755}
		return 1, io.EOF
	}
	return 0, io.EOF
}

func (s *pgStore) Fileread(r *sftp.Request) (io.ReaderAt, error) {
	s.mu.Lock()
	_, ok := s.files[r.Filepath]
	s.mu.Unlock()
	if !ok {
		return nil, os.ErrNotExist
	}
	return s.newObj(r.Filepath, "r"), nil
}

func (s *pgStore) openForWrite(r *sftp.Request) error {
	fl := r.Pflags()
	s.mu.Lock()
	defer s.mu.Unlock()
	_, ok := s.files[r.Filepath]
	switch {
	case s.dirs[r.Filepath]:
		return syscall.EISDIR
	case !ok && !fl.Creat:
		return os.ErrNotExist
	case ok && fl.Creat && fl.Excl:
		return os.ErrExist
	case !ok && !s.dirs[path.Dir(r.Filepath)]:
		return os.ErrNotExist
	case !ok || fl.Trunc:
		s.files[r.Filepath] = []byte{}
	}
	return nil
}

func (s *pgStore) Filewrite(r *sftp.Request) (io.WriterAt, error) {
	if err := s.openForWrite(r); err != nil {
		return nil, err
	}
	return s.newObj(r.Filepath, "w"), nil
}

func (s *pgStore) OpenFile(r *sftp.Request) (sftp.WriterAtReaderAt, error) {
	if err := s.openForWrite(r); err != nil {
		return nil, err
	}
	return s.newObj(r.Filepath, "rw"), nil
}

func (s *pgStore) Filelist(r *sftp.Request) (sftp.ListerAt, error) {
	switch r.Method {
	case "List":
		s.mu.Lock()
		isDir := s.dirs[r.Filepath]
		_, isFile := s.files[r.Filepath]
		s.mu.Unlock()
		if isFile {
			return nil, syscall.ENOTDIR
		}
		if !isDir {
			return nil, os.ErrNotExist
		}
		return s.newObj(r.Filepath, "dir"), nil
	case "Stat":
		return &pgStatLister{s, r.Filepath}, nil
	}
	return nil, errors.New("unsupported")
}

func (s *pgStore) Filecmd(r *sftp.Request) error {
	c := s.g.enter("cmd", r.Method+":"+r.Filepath)
	<-c.ch
	defer close(c.done)
	s.mu.Lock()
	defer s.mu.Unlock()
	p := r.Filepath
	switch r.Method {
	case "Setstat":
		b, ok := s.files[p]
		if !ok {
			if s.dirs[p] {
				return nil
			}
			return os.ErrNotExist
		}
		if r.AttrFlags().Size {
			sz := r.Attributes().Size
			if sz > pgMaxFile {
				return errors.New("size out of range")
			}
			nb := make([]byte, sz)
			copy(nb, b)
			s.files[p] = nb
		}
		return nil
	case "Rename":
		t := r.Target
		if _, ok := s.files[t]; ok || s.dirs[t] {
			return os.ErrExist
		}
		if b, ok := s.files[p]; ok {
			delete(s.files, p)
			s.files[t] = b
			return nil
		}
		if s.dirs[p] && p != "/" {
			for q := range s.files {
				if strings.HasPrefix(q, p+"/") {
					return errors.New("directory not empty")
				}
			}
			delete(s.dirs, p)
			s.dirs[t] = true
			return nil
		}
		return os.ErrNotExist
	case "Mkdir":
		if _, ok := s.files[p]; ok || s.dirs[p] {
			return os.ErrExist
		}
		if !s.dirs[path.Dir(p)] {
			return os.ErrNotExist
		}
		s.dirs[p] = true
		return nil
	case "Rmdir":
		if !s.dirs[p] || p == "/" {
			return os.ErrNotExist
		}
		if len(s.childrenLocked(p)) > 0 {
			return errors.New("directory not empty")
		}
		delete(s.dirs, p)
		return nil
	case "Remove":
		if _, ok := s.files[p]; !ok {
			return os.ErrNotExist
		}
		delete(s.files, p)
		return nil
	}
	return errors.New("unsupported")
}

func (s *pgStore) StatVFS(r *sftp.Request) (*sftp.StatVFS, error) {
	c := s.g.enter("cmd", "StatVFS:"+r.Filepath)
	<-c.ch
	defer close(c.done)
	return &sftp.StatVFS{Bsize: 4096, Frsize: 4096, Blocks: 1000, Bfree: 500, Bavail: 400, Files: 100, Ffree: 50, Favail: 40, Fsid: 7, Flag: 0, Namemax: 255}, nil
}

// ---------------------------------------------------------------- transport and server instances

// pgSockPair returns a connected pair of unix stream sockets (supports CloseWrite).
func pgSockPair() (net.Conn, net.Conn, error) {
	fds, err := syscall.Socketpair(syscall.AF_UNIX, syscall.SOCK_STREAM, 0)
	if err != nil {
		return nil, nil, err
	}
	f1, f2 := os.NewFile(uintptr(fds[0]), "pg-a"), os.NewFile(uintptr(fds[1]), "pg-b")
	defer f1.Close()
	defer f2.Close()
	c1, err := net.FileConn(f1)
	if err != nil {
		return nil, nil, err
	}
	c2, err := net.FileConn(f2)
	if err != nil {
		c1.Close()
		return nil, nil, err
	}
	return c1, c2, nil
}

type pgInstOpt struct {
	reqServer bool
	alloc     bool
	maxTx     uint32
	workDir   string   // os-backed server
	store     *pgStore // request server
	sock      bool     // socketpair instead of net.Pipe
	hub       *pgHub
	slowRead  bool           // the collector takes the response stream in 2 KiB pieces, yielding in between: the server's sends last longer
	handlers  *sftp.Handlers // request server: these handlers instead of store's
	readOnly  bool           // os-backed server with the ReadOnly() option
}

// pgStartHandlers: a request server over the given handlers.
func pgStartHandlers(h sftp.Handlers, alloc bool, hub *pgHub) (*pgInst, error) {
	return pgStart(pgInstOpt{reqServer: true, alloc: alloc, hub: hub, handlers: &h})
}

// pgSlowReader never stops draining; it only stretches the time a server-side Write on net.Pipe takes.
type pgSlowReader struct{ r io.Reader }

func (s pgSlowReader) Read(p []byte) (int, error) {
	if len(p) > 2048 {
		p = p[:2048]
	}
	for i := 0; i < 3; i++ {
		runtime.Gosched()
	}
	return s.r.Read(p)
}

type pgInst struct {
	cli  net.Conn
	srv  any // *sftp.Server or *sftp.RequestServer
	done chan error
	col  *pgCollector
	hub  *pgHub
}

func pgStart(o pgInstOpt) (*pgInst, error) {
	var c1, c2 net.Conn
	if o.sock {
		var err error
		if c1, c2, err = pgSockPair(); err != nil {
			return nil, err
		}
	} else {
		c1, c2 = net.Pipe()
	}
	in := &pgInst{cli: c1, done: make(chan error, 1)}
	if o.reqServer {
		var ro []sftp.RequestServerOption
		if o.alloc {
			ro = append(ro, sftp.WithRSAllocator())
		}
		if o.maxTx != 0 {
			ro = append(ro, sftp.WithRSMaxTxPacket(o.maxTx))
		}
		hs := sftp.Handlers{}
		if o.handlers != nil {
			hs = *o.handlers
		} else {
			hs = o.store.handlers()
		}
		rs := sftp.NewRequestServer(c2, hs, ro...)
		in.srv = rs
		go func() { err := rs.Serve(); rs.Close(); in.done <- err }()
	} else {
		var so []sftp.ServerOption
		if o.alloc {
			so = append(so, sftp.WithAllocator())
		}
		if o.readOnly {
			so = append(so, sftp.ReadOnly())
		}
		if o.maxTx != 0 {
			so = append(so, sftp.WithMaxTxPacket(o.maxTx))
		}
		if o.workDir != "" {
			so = append(so, sftp.WithServerWorkingDirectory(o.workDir))
		}
		s, err := sftp.NewServer(c2, so...)
		if err != nil {
			c1.Close()
			c2.Close()
			return nil, err
		}
		in.srv = s
		go func() { err := s.Serve(); c2.Close(); in.done <- err }()
	}
	if o.hub == nil {
		o.hub = newPgHub()
	}
	in.hub = o.hub
	in.col = newPgCollector(o.hub)
	if o.slowRead {
		go in.col.run(pgSlowReader{c1})
	} else {
		go in.col.run(c1)
	}
	return in, nil
}

// shutdown closes the client side and waits for Serve to return.
func (in *pgInst) shutdown() bool {
	in.cli.Close()
	select {
	case <-in.done:
		return true
	case <-time.After(5 * time.Second):
		return false
	}
}

// pgCollector drains and parses the response stream for the whole life of a connection.
type pgCollector struct {
	mu     sync.Mutex
	frames []*rawResp
	err    error
	hub    *pgHub
	eof    chan struct{}
}

func newPgCollector(hub *pgHub) *pgCollector {
	return &pgCollector{hub: hub, eof: make(chan struct{})}
}

func (k *pgCollector) run(r io.Reader) {
	for {
		f, err := readFrame(r)
		if err != nil {
			k.mu.Lock()
			k.err = err
			k.mu.Unlock()
			close(k.eof)
			k.hub.tick()
			return
		}
		k.mu.Lock()
		k.frames = append(k.frames, f)
		k.mu.Unlock()
		k.hub.tick()
	}
}

func (k *pgCollector) count() int {
	k.mu.Lock()
	defer k.mu.Unlock()
	return len(k.frames)
}

func (k *pgCollector) all() []*rawResp {
	k.mu.Lock()
	defer k.mu.Unlock()
	return append([]*rawResp(nil), k.frames...)
}

// ---------------------------------------------------------------- request programs

// request classes for the scheduler's model of the packet manager
const (
	pgClsCmdFree  = iota // command worker, no gated backend call
	pgClsCmdGated        // command worker, exactly one gated backend call
	pgClsRWFree          // read/write pool, no gated call (e.g. unknown handle)
	pgClsRWGated         // read/write pool, exactly one gated call
	pgClsClose           // CLOSE: waits for everything before it, then command worker
)

type pgReq struct {
	op    string // name used in stats and reasons
	typ   byte
	id    uint32
	frame []byte
	sync  bool // the writer waits for all earlier responses before sending this frame
	cls   int
	gkey  string // kind:args of the gated call this request is expected to make (RW only)
	slot  int    // handle slot used or created (-1: none)
	path  string
	off   uint64
	ln    uint32
	data  []byte
	ext   string
}

func pgTypeName(t byte) string {
	switch t {
	case fxpVersion:
		return "VERSION"
	case fxpStatus:
		return "STATUS"
	case fxpHandle:
		return "HANDLE"
	case fxpData:
		return "DATA"
	case fxpName:
		return "NAME"
	case fxpAttrs:
		return "ATTRS"
	case fxpExtendedReply:
		return "EXTENDED_REPLY"
	}
	return fmt.Sprintf("type%d", t)
}

// pgLegal: the response types the protocol allows for a request.
func pgLegal(r *pgReq) []byte {
	switch r.typ {
	case fxpInit:
		return []byte{fxpVersion}
	case fxpOpen, fxpOpendir:
		return []byte{fxpHandle, fxpStatus}
	case fxpRead:
		return []byte{fxpData, fxpStatus}
	case fxpReaddir, fxpRealpath, fxpReadlink:
		return []byte{fxpName, fxpStatus}
	case fxpStat, fxpLstat, fxpFstat:
		return []byte{fxpAttrs, fxpStatus}
	case fxpExtended:
		if r.ext == "statvfs@openssh.com" {
			return []byte{fxpExtendedReply, fxpStatus}
		}
	}
	return []byte{fxpStatus}
}

// pgCheckStream evaluates "exactly one response per request, its id, in arrival order, legal type".
// Failure classes by stable prefix: missing-responses / extra-responses / wrong-id / illegal-type.
func pgCheckStream(prog []*pgReq, resps []*rawResp) (bool, string) {
	n := len(resps)
	if n > len(prog) {
		n = len(prog)
	}
	for i := 0; i < n; i++ {
		rq, rs := prog[i], resps[i]
		if rq.typ == fxpInit {
			if rs.Typ != fxpVersion {
				return false, fmt.Sprintf("illegal-type: INIT answered %s", pgTypeName(rs.Typ))
			}
			continue
		}
		if rs.ID != rq.id || rs.Typ == fxpVersion {
			where := "no request"
			for j, o := range prog {
				if o.typ != fxpInit && o.id == rs.ID && rs.Typ != fxpVersion {
					where = fmt.Sprintf("request %d (%s)", j, o.op)
				}
			}
			return false, fmt.Sprintf("wrong-id: response %d (%s) carries the id of %s, expected that of request %d (%s)", i, pgTypeName(rs.Typ), where, i, rq.op)
		}
		legal := false
		for _, t := range pgLegal(rq) {
			legal = legal || t == rs.Typ
		}
		if !legal {
			return false, fmt.Sprintf("illegal-type: %s answered %s", rq.op, pgTypeName(rs.Typ))
		}
	}
	if len(resps) < len(prog) {
		return false, fmt.Sprintf("missing-responses: %d of %d arrived; first unanswered request %d (%s)", len(resps), len(prog), len(resps), prog[len(resps)].op)
	}
	if len(resps) > len(prog) {
		return false, fmt.Sprintf("extra-responses: %d for %d requests", len(resps), len(prog))
	}
	return true, ""
}

// ---------------------------------------------------------------- model of the packet manager (only to know when the server is quiescent)

// The dispatcher takes requests in order: READ/WRITE go to a pool of 8 workers through a channel of 8; CLOSE first
// waits until nothing is outstanding; everything else is handed to the single command worker (unbuffered).
// 8 more requests wait in the packet channel and one in the hand of the receive loop.
type pgSim struct {
	prog        []*pgReq
	ok          bool
	p, w        int
	completed   []bool
	answered    int
	rwq         []int
	busyRW      []int
	cmdBusy     int
	outstanding int
}

func newPgSim(prog []*pgReq) *pgSim {
	s := &pgSim{prog: prog, ok: true, completed: make([]bool, len(prog)), cmdBusy: -1}
	s.advance()
	return s
}

func (s *pgSim) complete(i int, counted bool) {
	s.completed[i] = true
	if counted {
		s.outstanding--
	}
	for s.answered < len(s.prog) && s.completed[s.answered] {
		s.answered++
	}
}

func (s *pgSim) advance() {
	for {
		progress := false
		for s.w < len(s.prog) && s.w < s.p+10 && (!s.prog[s.w].sync || s.answered >= s.w) {
			s.w++
			progress = true
		}
		for len(s.busyRW) < 8 && len(s.rwq) > 0 {
			i := s.rwq[0]
			s.rwq = s.rwq[1:]
			if s.prog[i].cls == pgClsRWGated {
				s.busyRW = append(s.busyRW, i)
			} else {
				s.complete(i, true)
			}
			progress = true
		}
		if s.p < s.w {
			i := s.p
			switch s.prog[i].cls {
			case pgClsRWFree, pgClsRWGated:
				if len(s.rwq) < 8 {
					s.rwq = append(s.rwq, i)
					s.outstanding++
					s.p++
					progress = true
				}
			case pgClsClose:
				if s.outstanding == 0 {
					s.complete(i, false)
					s.p++
					progress = true
				}
			case pgClsCmdGated:
				if s.cmdBusy < 0 {
					s.cmdBusy = i
					s.outstanding++
					s.p++
					progress = true
				}
			default:
				if s.cmdBusy < 0 {
					s.complete(i, false)
					s.p++
					progress = true
				}
			}
		}
		if !progress {
			return
		}
	}
}

func (s *pgSim) expBlocked() int {
	n := len(s.busyRW)
	if s.cmdBusy >= 0 {
		n++
	}
	return n
}

// opened tells the model which blocked calls were let through.
func (s *pgSim) opened(calls []*pgCall, all bool) {
	if !s.ok {
		return
	}
	if all {
		for _, i := range s.busyRW {
			s.complete(i, true)
		}
		s.busyRW = nil
		if s.cmdBusy >= 0 {
			s.complete(s.cmdBusy, true)
			s.cmdBusy = -1
		}
	} else {
		for _, c := range calls {
			found := false
			for k, i := range s.busyRW {
				if s.prog[i].gkey == c.kind+":"+c.args {
					s.busyRW = append(s.busyRW[:k], s.busyRW[k+1:]...)
					s.complete(i, true)
					found = true
					break
				}
			}
			if !found {
				s.ok = false
				return
			}
		}
	}
	s.advance()
}

// ---------------------------------------------------------------- runner

type pgRunOpt struct {
	gate         *pgGate // nil: nothing to schedule (os-backed server, or a store whose gates are free)
	permIdx      int     // index of the permutation used in the first round when at most 4 calls are blocked
	permSeed     int64   // seed of every other permutation
	holdForClose bool    // open gates only once the next unanswered CLOSE frame has been written (one gate at a time while the writer is stalled)
	timeout      time.Duration
	idle         time.Duration
}

type pgRunRes struct {
	resps       []*rawResp
	timedOut    bool
	eof         bool
	rounds      int
	maxBlocked  int
	firstRoundN int
	mispredicts int
	stalls      int
	opened      int
}

func pgFact(n int) int {
	f := 1
	for i := 2; i <= n; i++ {
		f *= i
	}
	return f
}

// pgNthPerm: the idx-th permutation of 0..m-1 in lexicographic order.
func pgNthPerm(m, idx int) []int {
	pool := make([]int, m)
	for i := range pool {
		pool[i] = i
	}
	out := make([]int, 0, m)
	idx %= pgFact(m)
	for k := m; k >= 1; k-- {
		f := pgFact(k - 1)
		j := idx / f
		idx %= f
		out = append(out, pool[j])
		pool = append(pool[:j], pool[j+1:]...)
	}
	return out
}

func pgNextClose(prog []*pgReq, from int) int {
	for i := from; i < len(prog); i++ {
		if prog[i].typ == fxpClose {
			return i
		}
	}
	return -1
}

// pgRun pipelines prog into the instance (a writer goroutine; the collector of the instance drains responses all along),
// lets blocked backend calls through in chosen orders, and returns when every response has arrived or on timeout.
// The client->server direction stays open; the caller shuts the instance down afterwards.
func pgRun(in *pgInst, prog []*pgReq, o pgRunOpt) *pgRunRes {
	res := &pgRunRes{firstRoundN: -1}
	if o.timeout == 0 {
		o.timeout = 10 * time.Second
	}
	if o.idle == 0 {
		o.idle = 50 * time.Millisecond
	}
	deadline := time.Now().Add(o.timeout)
	rng := rand.New(rand.NewSource(o.permSeed))
	var written int32
	abort := make(chan struct{})
	go func() { // writer: never waits for a reply except at explicit sync points
		for i, rq := range prog {
			if rq.sync {
				for {
					ch := in.hub.wait()
					if in.col.count() >= i {
						break
					}
					select {
					case <-ch:
					case <-abort:
						return
					}
				}
			}
			if _, err := in.cli.Write(rq.frame); err != nil {
				return
			}
			atomic.StoreInt32(&written, int32(i+1))
			in.hub.tick()
		}
	}()
	var sim *pgSim
	if o.gate != nil {
		sim = newPgSim(prog)
	}
	lastSig := [4]int{-1, -1, -1, -1}
	lastChange := time.Now()
	for {
		ch := in.hub.wait()
		n := in.col.count()
		if n >= len(prog) {
			break
		}
		now := time.Now()
		if now.After(deadline) {
			res.timedOut = true
			break
		}
		select {
		case <-in.col.eof:
			res.eof = true
		default:
		}
		if res.eof {
			break
		}
		if o.gate == nil {
			select {
			case <-ch:
			case <-time.After(200 * time.Millisecond):
			}
			continue
		}
		wr := int(atomic.LoadInt32(&written))
		sig := [4]int{o.gate.count(), o.gate.arrivals(), wr, n}
		if sig != lastSig {
			lastSig, lastChange = sig, now
		}
		blocked := sig[0]
		ready := false
		if sim.ok && blocked == sim.expBlocked() && wr == sim.w {
			ready = true
		} else if now.Sub(lastChange) >= o.idle {
			ready = true
			if sim.ok {
				sim.ok = false
				res.mispredicts++
			}
		}
		if !ready || blocked == 0 {
			wait := 200 * time.Millisecond
			if !ready {
				if wait = o.idle - now.Sub(lastChange); wait < time.Millisecond {
					wait = time.Millisecond
				}
			}
			select {
			case <-ch:
			case <-time.After(wait):
			}
			continue
		}
		calls := o.gate.snapshot()
		sort.Slice(calls, func(i, j int) bool { return calls[i].kind+calls[i].args < calls[j].kind+calls[j].args })
		m := len(calls)
		if m > res.maxBlocked {
			res.maxBlocked = m
		}
		partial := false
		if o.holdForClose {
			if ci := pgNextClose(prog, n); ci >= 0 && wr <= ci {
				partial = true
			}
		}
		var order []*pgCall
		if partial {
			order = []*pgCall{calls[rng.Intn(m)]}
			res.stalls++
		} else {
			var perm []int
			if res.rounds == 0 {
				res.firstRoundN = m
			}
			if res.rounds == 0 && m <= 4 {
				perm = pgNthPerm(m, o.permIdx)
			} else {
				perm = rng.Perm(m)
			}
			for _, k := range perm {
				order = append(order, calls[k])
			}
			res.rounds++
		}
		for _, c := range order {
			o.gate.open(c)
			select {
			case <-c.done:
			case <-time.After(time.Until(deadline) + time.Millisecond):
			}
			res.opened++
			time.Sleep(20 * time.Microsecond) // let the worker hand its response over before the next call is let through
		}
		sim.opened(order, !partial)
		lastSig = [4]int{-1, -1, -1, -1}
		lastChange = time.Now()
	}
	close(abort)
	if o.gate != nil {
		o.gate.setFree()
	}
	res.resps = in.col.all()
	return res
}

// ---------------------------------------------------------------- the fixed tree and seeded request programs (c02, c18)

// pgPat: byte i of the file with number k; different files differ almost everywhere, no short period.
func pgPat(k int, i int64) byte {
	x := uint32(i)*2654435761 + uint32(k)*40503 + 12345
	return byte(x>>23) ^ byte(k*37+11)
}

func pgPatBytes(k int, off int64, n int) []byte {
	b := make([]byte, n)
	for i := range b {
		b[i] = pgPat(k, off+int64(i))
	}
	return b
}

var pgRoSizes = []int{10, 5000, 40000, 70000, 300000, 600000}

const pgNDX = 4 // d/x0..x3 (file numbers 50..)

// tree: ro/f0..f5 (never modified), w/ (files created by the program: w/nJ has file number 100+J), d/ (commands play here)
func pgPopulateStore(st *pgStore) {
	for _, d := range []string{"/ro", "/w", "/d", "/d/a", "/d/b"} {
		st.putDir(d)
	}
	for k, n := range pgRoSizes {
		st.putFile(fmt.Sprintf("/ro/f%d", k), pgPatBytes(k, 0, n))
	}
	for k := 0; k < pgNDX; k++ {
		st.putFile(fmt.Sprintf("/d/x%d", k), pgPatBytes(50+k, 0, 100+k))
	}
}

func pgPopulateDir(root string) error {
	for _, d := range []string{"ro", "w", "d", "d/a", "d/b"} {
		if err := os.MkdirAll(root+"/"+d, 0o755); err != nil {
			return err
		}
	}
	t := time.Unix(1500000000, 0)
	for k, n := range pgRoSizes {
		p := fmt.Sprintf("%s/ro/f%d", root, k)
		if err := os.WriteFile(p, pgPatBytes(k, 0, n), 0o644); err != nil {
			return err
		}
		os.Chtimes(p, t, t)
	}
	for k := 0; k < pgNDX; k++ {
		if err := os.WriteFile(fmt.Sprintf("%s/d/x%d", root, k), pgPatBytes(50+k, 0, 100+k), 0o644); err != nil {
			return err
		}
	}
	return nil
}

type pgSlot struct {
	handle string
	path   string // clean absolute path in the store ("/ro/f1"); os-backed: relative to the work dir without the slash
	kind   string // r | w | rw | dir
	fileNo int
	size   int // ro files
	reqIdx int
	valid  bool // predicted: the open succeeds
	closed bool
}

type pgGenOpt struct {
	reqServer bool
	stable    bool // responses do not depend on worker timing: handles used only after a sync point, no shared mutable files
	wrongKind bool // READ/WRITE/READDIR also on handles of another kind
	syncOpens bool // sync point before the first use after an open (what a client that cannot guess handles does)
	serial    bool // every request waits for the previous response
	depth     int
	maxTx     uint32
	bigIO     bool
	fewIDs    bool // request ids drawn from {7,8,9}: several requests in flight carry the same id (the server orders by arrival, not by id)
}

type pgProgram struct {
	reqs  []*pgReq
	slots []*pgSlot
}

const pgNoSlot = -2000000

type pgGen struct {
	bogusOK  bool // no suitable handle is open: use a bad one (otherwise the step opens one instead)
	burst    int  // remaining requests of a READ/WRITE burst
	burstW   bool
	rng      *rand.Rand
	o        pgGenOpt
	pr       *pgProgram
	ids      map[uint32]bool
	hcount   int
	nW, nM   int
	needSync bool
	exists   map[string]string // d/ namespace model: name -> "f" | "d"
}

func (g *pgGen) id() uint32 {
	if g.o.fewIDs {
		return uint32(7 + g.rng.Intn(3))
	}
	for {
		v := g.rng.Uint32()
		if !g.ids[v] {
			g.ids[v] = true
			return v
		}
	}
}

func (g *pgGen) add(r *pgReq, uses bool) *pgReq {
	if g.o.serial && len(g.pr.reqs) > 0 {
		r.sync = true
	}
	if uses && g.needSync && (g.o.stable || g.o.syncOpens) {
		r.sync = true
	}
	if r.sync {
		g.needSync = false
	}
	g.pr.reqs = append(g.pr.reqs, r)
	return r
}

func (g *pgGen) maxTxEff() uint32 {
	if g.o.maxTx < 32768 {
		return 32768
	}
	return g.o.maxTx
}

// open emits OPEN/OPENDIR and a slot for the handle it will get.
func (g *pgGen) open(op string, typ byte, wire string, pflags uint32, kind string, fileNo, size int, ok bool) {
	id := g.id()
	var fr []byte
	if typ == fxpOpendir {
		fr = rawPathOp(fxpOpendir, id, wire)
	} else {
		fr = rawOpen(id, wire, pflags, 0, nil)
	}
	r := g.add(&pgReq{op: op, typ: typ, id: id, frame: fr, cls: pgClsCmdFree, slot: -1, path: "/" + wire}, false)
	if g.o.reqServer || ok {
		g.hcount++
	}
	if ok {
		g.pr.slots = append(g.pr.slots, &pgSlot{handle: fmt.Sprint(g.hcount), path: "/" + wire, kind: kind, fileNo: fileNo, size: size, reqIdx: len(g.pr.reqs) - 1, valid: true})
		r.slot = len(g.pr.slots) - 1
		g.needSync = true
	}
}

func (g *pgGen) pickSlot(kinds string, allowAny bool) (int, string) {
	var cand []int
	for i, s := range g.pr.slots {
		if s.closed {
			continue
		}
		if allowAny || strings.Contains(kinds, "|"+s.kind+"|") {
			cand = append(cand, i)
		}
	}
	if len(cand) == 0 && !g.bogusOK {
		return pgNoSlot, ""
	}
	if len(cand) == 0 || g.rng.Intn(100) < 8 {
		if !g.o.stable && !g.o.wrongKind && g.rng.Intn(2) == 0 {
			// a handle of a suitable kind that was closed earlier (the request may overtake the CLOSE inside the server: either answer is legal)
			for i, s := range g.pr.slots {
				if s.closed && (kinds == "" || strings.Contains(kinds, "|"+s.kind+"|")) {
					return -1 - i, s.handle
				}
			}
		}
		return -1000000, []string{"9999", "nohandle", ""}[g.rng.Intn(3)]
	}
	i := cand[g.rng.Intn(len(cand))]
	return i, g.pr.slots[i].handle
}

func (g *pgGen) rdLen() uint32 {
	c := g.rng.Intn(10)
	if g.o.bigIO {
		c += 3
	}
	switch {
	case c < 4:
		return uint32(1 + g.rng.Intn(64))
	case c < 8:
		return uint32(1000 + g.rng.Intn(31769))
	}
	return []uint32{65536, 131072, 200000, 262144, 262144}[g.rng.Intn(5)]
}

func (g *pgGen) step() {
	r := g.rng
	st := g.o.stable
	w := r.Intn(130)
	g.bogusOK = r.Intn(100) < 12
	if g.burst > 0 {
		g.burst--
		if w = 30; g.burstW {
			w = 50
		}
	} else if w >= 124 {
		g.burst, g.burstW = 2+r.Intn(11), r.Intn(2) == 0
		return
	}
	switch {
	case w < 8:
		k := r.Intn(len(pgRoSizes))
		if g.o.bigIO && r.Intn(10) < 6 {
			k = 4 + r.Intn(2)
		}
		g.open("OPEN(existing)", fxpOpen, fmt.Sprintf("ro/f%d", k), 1, "r", k, pgRoSizes[k], true)
	case w < 11:
		g.open("OPEN(missing)", fxpOpen, "ro/nope", 1, "", 0, 0, false)
	case w < 17:
		g.nW++
		g.open("OPEN(create)", fxpOpen, fmt.Sprintf("w/n%d", g.nW), 0x1a, "w", 100+g.nW, 0, true)
	case w < 20:
		g.nW++
		g.open("OPEN(create,rw)", fxpOpen, fmt.Sprintf("w/n%d", g.nW), 0x0b, "rw", 100+g.nW, 0, true)
	case w < 42: // READ
		wrong := g.o.wrongKind && r.Intn(100) < 40
		si, h := g.pickSlot("|r|rw|", wrong)
		if si == pgNoSlot {
			k := r.Intn(len(pgRoSizes))
			g.open("OPEN(existing)", fxpOpen, fmt.Sprintf("ro/f%d", k), 1, "r", k, pgRoSizes[k], true)
			return
		}
		ln := g.rdLen()
		var off uint64
		rq := &pgReq{op: "READ", typ: fxpRead, cls: pgClsRWFree, slot: -1}
		if si >= 0 {
			s := g.pr.slots[si]
			switch r.Intn(5) {
			case 0:
			case 1:
				off = uint64(s.size + 100)
			case 2:
				if s.size > 10 {
					off = uint64(s.size - 10)
				}
			default:
				if s.size > 0 {
					off = uint64(r.Intn(s.size))
				}
			}
			if s.kind == "rw" && st {
				off = 1<<20 + uint64(r.Intn(1000))
			}
			n := ln
			if n > g.maxTxEff() {
				n = g.maxTxEff()
			}
			rq.cls, rq.slot = pgClsRWGated, si
			switch s.kind {
			case "r", "rw":
				rq.gkey = fmt.Sprintf("read:%s@%d+%d", s.path, off, n)
			case "w": // refused since the wrong-kind fix (before it: WriteAt of zeros; the scheduler then falls back to the idle rule)
				rq.cls, rq.op = pgClsRWFree, "READ(write-handle)"
			case "dir":
				rq.cls, rq.op = pgClsRWFree, "READ(dir-handle)"
			}
		} else {
			rq.op = "READ(bad-handle)"
		}
		rq.id, rq.off, rq.ln = g.id(), off, ln
		rq.frame = rawRead(rq.id, h, off, ln)
		g.add(rq, true)
	case w < 58: // WRITE
		wrong := g.o.wrongKind && r.Intn(100) < 40
		si, h := g.pickSlot("|w|rw|", wrong)
		if si == pgNoSlot {
			g.nW++
			g.open("OPEN(create)", fxpOpen, fmt.Sprintf("w/n%d", g.nW), 0x1a, "w", 100+g.nW, 0, true)
			return
		}
		var n int
		switch c := r.Intn(10); {
		case c < 4:
			n = 1 + r.Intn(64)
		case c < 8 && !g.o.bigIO:
			n = 1000 + r.Intn(31769)
		default:
			n = 100000 + r.Intn(150000)
		}
		off := uint64(r.Intn(400000))
		rq := &pgReq{op: "WRITE", typ: fxpWrite, cls: pgClsRWFree, slot: -1, off: off}
		fileNo := 99
		if si >= 0 {
			s := g.pr.slots[si]
			fileNo = s.fileNo
			rq.cls, rq.slot = pgClsRWGated, si
			switch s.kind {
			case "w", "rw":
				rq.gkey = fmt.Sprintf("write:%s@%d+%d", s.path, off, n)
			case "r":
				off = uint64(r.Intn(s.size)) // inside the file, where the backend's ReadAt succeeds
				rq.off = off
				rq.cls, rq.op = pgClsRWFree, "WRITE(read-handle)"
			case "dir":
				rq.cls, rq.op = pgClsRWFree, "WRITE(dir-handle)"
			}
		} else {
			rq.op = "WRITE(bad-handle)"
		}
		rq.data = pgPatBytes(fileNo, int64(off), n)
		rq.id = g.id()
		rq.frame = rawWrite(rq.id, h, off, rq.data)
		g.add(rq, true)
	case w < 63: // FSTAT
		kinds := "|r|w|rw|dir|"
		if st {
			kinds = "|r|dir|"
		}
		g.bogusOK = true
		si, h := g.pickSlot(kinds, false)
		rq := &pgReq{op: "FSTAT", typ: fxpFstat, cls: pgClsCmdFree, slot: -1, id: g.id()}
		if si >= 0 {
			rq.cls, rq.slot = pgClsCmdGated, si
		}
		rq.frame = rawHandleOp(fxpFstat, rq.id, h)
		g.add(rq, true)
	case w < 71: // CLOSE
		si, h := g.pickSlot("", true)
		if si == pgNoSlot {
			return
		}
		rq := &pgReq{op: "CLOSE", typ: fxpClose, cls: pgClsClose, slot: -1, id: g.id()}
		if si >= 0 {
			rq.slot = si
			g.pr.slots[si].closed = true
		} else {
			rq.op = "CLOSE(bad-handle)"
		}
		rq.frame = rawHandleOp(fxpClose, rq.id, h)
		g.add(rq, true)
	case w < 78: // STAT / LSTAT
		typ, op := byte(fxpStat), "STAT"
		if w >= 75 {
			typ, op = fxpLstat, "LSTAT"
		}
		ps := []string{"ro/f1", "ro/f4", "d/a", "d/x0", "d/x1", "ro/nope", "ro", "d/m1"}
		if !st {
			ps = append(ps, "w/n1", "w/n2")
		}
		p := ps[r.Intn(len(ps))]
		id := g.id()
		g.add(&pgReq{op: op, typ: typ, id: id, frame: rawPathOp(typ, id, p), cls: pgClsCmdGated, slot: -1, path: "/" + p}, false)
	case w < 81: // MKDIR
		g.nM++
		p := fmt.Sprintf("d/m%d", g.nM)
		if r.Intn(4) == 0 {
			p = "d/a"
		} else {
			g.exists[p] = "d"
		}
		id := g.id()
		g.add(&pgReq{op: "MKDIR", typ: fxpMkdir, id: id, frame: rawMkdir(id, p), cls: pgClsCmdGated, slot: -1}, false)
	case w < 84: // REMOVE
		p := fmt.Sprintf("d/x%d", r.Intn(pgNDX+1))
		if g.exists[p] == "f" {
			delete(g.exists, p)
		}
		id := g.id()
		g.add(&pgReq{op: "REMOVE", typ: fxpRemove, id: id, frame: rawPathOp(fxpRemove, id, p), cls: pgClsCmdGated, slot: -1}, false)
	case w < 86: // RMDIR
		p := fmt.Sprintf("d/m%d", 1+r.Intn(g.nM+1))
		if g.exists[p] == "d" {
			delete(g.exists, p)
		}
		id := g.id()
		g.add(&pgReq{op: "RMDIR", typ: fxpRmdir, id: id, frame: rawPathOp(fxpRmdir, id, p), cls: pgClsCmdGated, slot: -1}, false)
	case w < 91: // RENAME / posix-rename
		src := fmt.Sprintf("d/x%d", r.Intn(pgNDX))
		g.nM++
		dst := fmt.Sprintf("d/y%d", g.nM)
		if g.exists[src] == "f" {
			delete(g.exists, src)
			g.exists[dst] = "f"
		}
		id := g.id()
		if w < 89 {
			g.add(&pgReq{op: "RENAME", typ: fxpRename, id: id, frame: rawTwoPath(fxpRename, id, src, dst), cls: pgClsCmdGated, slot: -1}, false)
		} else {
			g.add(&pgReq{op: "EXTENDED(posix-rename)", typ: fxpExtended, ext: "posix-rename@openssh.com", id: id,
				frame: rawExtended(id, "posix-rename@openssh.com", (&rb{}).str(src).str(dst).b), cls: pgClsCmdGated, slot: -1}, false)
		}
	case w < 95: // OPENDIR
		ps := []string{"ro", "d/a", "ro/nope", "ro/f1"}
		if !st {
			ps = append(ps, "d", "w", fmt.Sprintf("d/m%d", 1+r.Intn(g.nM+1)))
		}
		p := ps[r.Intn(len(ps))]
		ok := p == "ro" || p == "d" || p == "w" || g.exists[p] == "d"
		g.open("OPENDIR", fxpOpendir, p, 0, "dir", 0, 0, ok)
	case w < 100: // READDIR
		wrong := g.o.wrongKind && r.Intn(100) < 40
		si, h := g.pickSlot("|dir|", wrong)
		if si == pgNoSlot {
			g.open("OPENDIR", fxpOpendir, "ro", 0, "dir", 0, 0, true)
			return
		}
		rq := &pgReq{op: "READDIR", typ: fxpReaddir, cls: pgClsCmdFree, slot: -1, id: g.id()}
		if si >= 0 {
			rq.slot = si
			switch g.pr.slots[si].kind {
			case "dir":
				rq.cls = pgClsCmdGated
			default:
				rq.op = "READDIR(file-handle)"
			}
		} else {
			rq.op = "READDIR(bad-handle)"
		}
		rq.frame = rawHandleOp(fxpReaddir, rq.id, h)
		g.add(rq, true)
	case w < 103: // REALPATH
		p := []string{"ro/../d/./a", ".", "/x/y/../z", "w//n1"}[r.Intn(4)]
		id := g.id()
		g.add(&pgReq{op: "REALPATH", typ: fxpRealpath, id: id, frame: rawPathOp(fxpRealpath, id, p), cls: pgClsCmdFree, slot: -1}, false)
	case w < 105: // READLINK
		id := g.id()
		g.add(&pgReq{op: "READLINK", typ: fxpReadlink, id: id, frame: rawPathOp(fxpReadlink, id, "d/x0"), cls: pgClsCmdFree, slot: -1}, false)
	case w < 109: // SETSTAT
		p := fmt.Sprintf("d/x%d", r.Intn(pgNDX+1))
		id := g.id()
		var fr []byte
		if r.Intn(2) == 0 {
			fr = rawSetstat(id, p, 1, attrBlock(1, uint64(r.Intn(5000)), 0, 0, 0, 0, 0))
		} else {
			fr = rawSetstat(id, p, 4, attrBlock(4, 0, 0, 0, 0o100600+uint32(r.Intn(2))*0o44, 0, 0))
		}
		g.add(&pgReq{op: "SETSTAT", typ: fxpSetstat, id: id, frame: fr, cls: pgClsCmdGated, slot: -1}, false)
	case w < 111: // FSETSTAT (permissions only)
		kinds := "|r|w|rw|"
		if st {
			kinds = "|w|"
		}
		g.bogusOK = true
		si, h := g.pickSlot(kinds, false)
		rq := &pgReq{op: "FSETSTAT", typ: fxpFsetstat, cls: pgClsCmdFree, slot: -1, id: g.id()}
		if si >= 0 {
			rq.cls, rq.slot = pgClsCmdGated, si
		}
		rq.frame = rawFsetstat(rq.id, h, 4, attrBlock(4, 0, 0, 0, 0o100640, 0, 0))
		g.add(rq, true)
	case w < 114: // statvfs
		id := g.id()
		g.add(&pgReq{op: "EXTENDED(statvfs)", typ: fxpExtended, ext: "statvfs@openssh.com", id: id,
			frame: rawExtended(id, "statvfs@openssh.com", (&rb{}).str("ro").b), cls: pgClsCmdGated, slot: -1}, false)
	case w < 117: // unknown extension
		id := g.id()
		pl := make([]byte, r.Intn(12))
		r.Read(pl)
		g.add(&pgReq{op: "EXTENDED(unknown)", typ: fxpExtended, ext: "frobnicate@example.com", id: id,
			frame: rawExtended(id, "frobnicate@example.com", pl), cls: pgClsCmdFree, slot: -1}, false)
	case w < 120: // SETSTAT / FSETSTAT whose attribute block is shorter than its flags announce: refused before any backend call
		id := g.id()
		flags := []uint32{1, 4, 8, 5}[r.Intn(4)]
		full := attrBlock(flags, 77, 0, 0, 0o100600, 1500000000, 1500000000)
		short := full[:r.Intn(len(full))]
		if r.Intn(2) == 0 {
			g.add(&pgReq{op: "SETSTAT(short-attrs)", typ: fxpSetstat, id: id, frame: rawSetstat(id, fmt.Sprintf("d/x%d", r.Intn(pgNDX+1)), flags, short), cls: pgClsCmdFree, slot: -1}, false)
		} else {
			g.bogusOK = true
			_, h := g.pickSlot("|r|w|rw|", false)
			g.add(&pgReq{op: "FSETSTAT(short-attrs)", typ: fxpFsetstat, id: id, frame: rawFsetstat(id, h, flags, short), cls: pgClsCmdFree, slot: -1}, true)
		}
	default: // one more data transfer on whatever is open: keeps the pool busy
		if r.Intn(2) == 0 {
			k := r.Intn(len(pgRoSizes))
			g.open("OPEN(existing)", fxpOpen, fmt.Sprintf("ro/f%d", k), 1, "r", k, pgRoSizes[k], true)
		}
	}
}

// pgGenProgram: INIT followed by o.depth seeded requests.
func pgGenProgram(rng *rand.Rand, o pgGenOpt) *pgProgram {
	g := &pgGen{rng: rng, o: o, pr: &pgProgram{}, ids: map[uint32]bool{}, exists: map[string]string{"d/a": "d", "d/b": "d"}}
	for k := 0; k < pgNDX; k++ {
		g.exists[fmt.Sprintf("d/x%d", k)] = "f"
	}
	g.pr.reqs = append(g.pr.reqs, &pgReq{op: "INIT", typ: fxpInit, frame: rawInit(), cls: pgClsCmdFree, slot: -1})
	for len(g.pr.reqs) < o.depth+1 {
		g.step()
	}
	return g.pr
}
