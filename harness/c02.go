package main

// C02 — servers answer every request once, with its id, in arrival order.
// Seeded request programs are PIPELINED as raw frames (no waiting for replies) into a request server whose backend
// calls block on gates opened by the harness in chosen permutations (so the completion order of the 8 read/write
// workers and the command worker is an input), and into the os-backed server (timing varied by transfer sizes).
// A collector goroutine drains the response stream all along. Oracle only (no obs lines).

import (
	"fmt"
	"math/rand"
	"net"
	"os"
	"sort"
	"strings"
	"time"
)

func init() { register("c02", runC02) }

type c02Cfg struct {
	reqServer, alloc bool
	maxTx            uint32
}

func (k c02Cfg) name() string {
	if k.reqServer {
		return "rs"
	}
	return "os"
}

// c02Exec runs one program once. gated: request-server backend calls block until the scheduler lets them through.
func c02Exec(prog *pgProgram, k c02Cfg, gated bool, permIdx int, permSeed int64, hold bool) (*pgRunRes, *pgStore, bool, error) {
	hub := newPgHub()
	o := pgInstOpt{reqServer: k.reqServer, alloc: k.alloc, maxTx: k.maxTx, hub: hub}
	var g *pgGate
	if k.reqServer {
		g = newPgGate(!gated, hub)
		o.store = newPgStore(g)
		pgPopulateStore(o.store)
	} else {
		dir, err := os.MkdirTemp("", "vh-c02-")
		if err != nil {
			return nil, nil, false, err
		}
		defer os.RemoveAll(dir)
		if err := pgPopulateDir(dir); err != nil {
			return nil, nil, false, err
		}
		o.workDir = dir
	}
	in, err := pgStart(o)
	if err != nil {
		return nil, nil, false, err
	}
	ro := pgRunOpt{permIdx: permIdx, permSeed: permSeed, holdForClose: hold}
	if gated && k.reqServer {
		ro.gate = g
	}
	res := pgRun(in, prog.reqs, ro)
	down := in.shutdown()
	if g != nil {
		g.setFree()
	}
	return res, o.store, down, nil
}

func c02ProgStats(c *Ctx, prog *pgProgram) (distinct int, rwIssued int, big bool) {
	seen := map[string]bool{}
	for _, r := range prog.reqs {
		c.Stat("op_" + r.op)
		seen[r.op] = true
		if (r.typ == fxpRead || r.typ == fxpWrite) && r.slot >= 0 {
			rwIssued++
		}
		if r.ln >= 100000 || len(r.data) >= 100000 {
			big = true
		}
	}
	return len(seen), rwIssued, big
}

func c02Bucket(n int) string {
	switch {
	case n <= 1:
		return fmt.Sprint(n)
	case n <= 4:
		return "2-4"
	case n <= 8:
		return "5-8"
	}
	return "9"
}

func runC02(c *Ctx) {
	c.Rule("seeded request programs (INIT + 6..24 requests over OPEN existing/missing/create, READ/WRITE on issued, closed, unknown handles, FSTAT, CLOSE, " +
		"STAT, LSTAT, MKDIR, RMDIR, REMOVE, RENAME, OPENDIR, READDIR, REALPATH, READLINK, SETSTAT, FSETSTAT, statvfs, posix-rename, an unknown extension; distinct random 32-bit ids; " +
		"handles named by prediction), sent back-to-back as raw frames while the response stream is drained; request server with gated backend x gate permutations " +
		"(all permutations of the first round when at most 4 calls are blocked, seeded ones otherwise), os-backed server with small vs 256 KiB transfers; allocator off/on. " +
		"kind pipe: connection kept open until all responses arrived (10 s limit); kind eofnow: write side closed right after the last request. " +
		"non-trivial = at least 3 distinct request kinds, a READ/WRITE on an issued handle, and (request server) at least 2 backend calls blocked at once or (os) at least 4 transfers or one of 100000+ bytes")
	nProg, extraSched, nEOF := 120, 2, 15
	if c.Thorough() {
		nProg, extraSched, nEOF = 1200, 4, 150
	}
	// first the cases that run in a child process: a server that panics there is an oracle failure with its input, whereas a
	// panic in the in-process kinds below takes the whole family down
	c02OpenRaces(c)
	c02MaxFrames(c)
	mispred, rounds := 0, 0
	illegal := map[string]int{}
	stalled := 0 // failing cases that ran into the 10 s limit: a server that stops answering is reported, not waited for 600 times
pipes:
	for pi := 0; pi < nProg; pi++ {
		seed := c.Rng.Int63()
		depth := 6 + int(seed>>8)%19
		wrongKind := pi%4 == 3
		syncOpens := pi%3 == 1
		big := pi%2 == 1
		fewIDs := pi%5 == 2 // a peer that reuses request ids while earlier requests with the same id are still in flight
		for _, k := range []c02Cfg{{true, false, 0}, {true, true, 0}, {false, false, 0}, {false, true, 0}, {true, true, 262144}, {false, true, 262144}} {
			if k.maxTx != 0 && !big {
				continue
			}
			gen := func() *pgProgram {
				return pgGenProgram(rand.New(rand.NewSource(seed)), pgGenOpt{reqServer: k.reqServer, wrongKind: wrongKind, syncOpens: syncOpens, depth: depth, maxTx: k.maxTx, bigIO: big, fewIDs: fewIDs})
			}
			scheds := 1
			for si := 0; si < scheds; si++ {
				prog := gen()
				res, _, down, err := c02Exec(prog, k, true, si, seed+int64(si)*7919, false)
				if err != nil {
					c.Diag("c02 setup: %v", err)
					return
				}
				if si == 0 && k.reqServer {
					// number of schedules from the model's first round (not from the observation: the case list stays a function of the seed)
					switch m := newPgSim(gen().reqs).expBlocked(); {
					case m >= 2 && m <= 4:
						scheds = pgFact(m)
						if !c.Thorough() && scheds > 6 {
							scheds = 6
						}
					default:
						scheds = 1 + extraSched
					}
				}
				n := c.Case("pipe", kvs("srv", k.name()), kvb("alloc", k.alloc), kvx("maxtx", uint64(k.maxTx)), kvx("seed", uint64(seed)), kvi("depth", depth),
					kvi("sched", si), kvb("wrongkind", wrongKind), kvb("syncopens", syncOpens), kvb("big", big), kvb("fewids", fewIDs))
				if fewIDs {
					c.Stat("programs_reusing_request_ids")
				}
				ok, why := pgCheckStream(prog.reqs, res.resps)
				if ok && !down {
					ok, why = false, "server-hang: Serve did not return within 5 s of closing the connection"
				}
				c.Oracle(n, ok, why)
				distinct, rwIssued, hasBig := c02ProgStats(c, prog)
				nt := distinct >= 3 && rwIssued >= 1
				if k.reqServer {
					nt = nt && res.maxBlocked >= 2
					c.Stat("rs_maxblocked_" + c02Bucket(res.maxBlocked))
					c.Stat("rs_firstround_" + c02Bucket(res.firstRoundN))
					mispred += res.mispredicts
					rounds += res.rounds
				} else {
					nt = nt && (rwIssued >= 4 || hasBig)
				}
				if nt {
					c.NT(n)
				}
				for i, r := range res.resps {
					c.Stat("resp_" + pgTypeName(r.Typ))
					if i < len(prog.reqs) && r.Typ != fxpVersion && r.ID == prog.reqs[i].id {
						legal := false
						for _, t := range pgLegal(prog.reqs[i]) {
							legal = legal || t == r.Typ
						}
						if !legal {
							illegal[k.name()+":"+prog.reqs[i].op+"->"+pgTypeName(r.Typ)]++
						}
					}
				}
				if res.timedOut {
					c.Stat("timeouts")
					if !ok {
						if stalled++; stalled >= 12 {
							c.Diag("c02 pipe: stopped after %d failing cases that ran into the time limit", stalled)
							break pipes
						}
					}
				}
				c.Stat("cases_" + k.name())
			}
		}
	}
	var ill []string
	for k, v := range illegal {
		ill = append(ill, fmt.Sprintf("%s x%d", k, v))
	}
	sort.Strings(ill)
	c.Diag("c02 illegal response types seen (server:request->response): %s", strings.Join(ill, "; "))
	c.Diag("c02 scheduler: %d gate rounds, %d runs fell back from the model to the 50 ms idle rule", rounds, mispred)

	// eofnow: the write side is closed right after the last request frame (socketpair: half-close)
	lost, total, lostResp, totalResp := 0, 0, 0, 0
	for pi := 0; pi < nEOF; pi++ {
		seed := c.Rng.Int63()
		depth := 6 + int(seed>>8)%19
		for _, k := range []c02Cfg{{true, false, 0}, {true, true, 0}, {false, false, 0}, {false, true, 0}} {
			prog := pgGenProgram(rand.New(rand.NewSource(seed)), pgGenOpt{reqServer: k.reqServer, depth: depth})
			resps, err := c02EOFNow(prog, k)
			if err != nil {
				c.Diag("c02 eofnow setup: %v", err)
				return
			}
			n := c.Case("eofnow", kvs("srv", k.name()), kvb("alloc", k.alloc), kvx("seed", uint64(seed)), kvi("depth", depth))
			c.NT(n)
			ok, why := pgCheckStream(prog.reqs, resps)
			total++
			totalResp += len(prog.reqs)
			if !ok && len(resps) < len(prog.reqs) {
				if ok2, why2 := pgCheckStream(prog.reqs[:len(resps)], resps); !ok2 {
					why = why2 // a defect in what did arrive takes precedence
				} else {
					why = fmt.Sprintf("eof-drops-responses: %s", why)
					lost++
					lostResp += len(prog.reqs) - len(resps)
				}
			}
			c.Oracle(n, ok, why)
			c.Stat("cases_eofnow_" + k.name())
		}
	}
	c.Diag("c02 eofnow: %d of %d sessions lost trailing responses (%d of %d responses) when the client closed its write side right after the last request", lost, total, lostResp, totalResp)
}

// c02EOFNow writes the whole program, half-closes, and collects what comes back until the server closes its side.
func c02EOFNow(prog *pgProgram, k c02Cfg) ([]*rawResp, error) {
	hub := newPgHub()
	o := pgInstOpt{reqServer: k.reqServer, alloc: k.alloc, hub: hub, sock: true}
	if k.reqServer {
		o.store = newPgStore(newPgGate(true, hub))
		pgPopulateStore(o.store)
	} else {
		dir, err := os.MkdirTemp("", "vh-c02-")
		if err != nil {
			return nil, err
		}
		defer os.RemoveAll(dir)
		if err := pgPopulateDir(dir); err != nil {
			return nil, err
		}
		o.workDir = dir
	}
	in, err := pgStart(o)
	if err != nil {
		return nil, err
	}
	for _, r := range prog.reqs {
		if _, err := in.cli.Write(r.frame); err != nil {
			break
		}
	}
	in.cli.(*net.UnixConn).CloseWrite()
	select {
	case <-in.col.eof:
	case <-time.After(10 * time.Second):
	}
	in.shutdown()
	return in.col.all(), nil
}
