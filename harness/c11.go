package main

// C11 — handles are unique, die on close, and all resources are released once.
// Oracle-only family: generated raw sessions against the os-backed Server (descriptor accounting through
// /proc/self/fd) and the RequestServer (instrumented reader/writer/lister objects from an own in-memory backend),
// each session ended cleanly, after every request and in the middle of its last packet.
//
// This file also holds the pieces shared with c07: the two-pipe transport with half-close, the instrumented
// in-memory backend (c11FS) and the recursive tree snapshot.

import (
	"context"
	"crypto/sha1"
	"errors"
	"fmt"
	"io"
	"math/rand"
	"net"
	"os"
	"path"
	"path/filepath"
	"runtime/debug"
	"sort"
	"strconv"
	"strings"
	"sync"
	"syscall"
	"time"

	"github.com/pkg/sftp"
)

func init() { register("c11", runC11) }

// ---------------------------------------------------------------------------------------------------------------
// transport: one net.Pipe per direction, so the peer can close client->server and keep draining server->client.

type c11SrvSide struct{ in, out net.Conn }

func (s *c11SrvSide) Read(b []byte) (int, error)  { return s.in.Read(b) }
func (s *c11SrvSide) Write(b []byte) (int, error) { return s.out.Write(b) }
func (s *c11SrvSide) Close() error                { s.in.Close(); return s.out.Close() }

type c11CliSide struct{ w, r net.Conn }

func c11NewDuplex() (*c11CliSide, *c11SrvSide) {
	a1, a2 := net.Pipe()
	b1, b2 := net.Pipe()
	return &c11CliSide{w: a1, r: b1}, &c11SrvSide{in: a2, out: b2}
}
func (c *c11CliSide) closeWrite() { c.w.Close() }
func (c *c11CliSide) closeAll()   { c.w.Close(); c.r.Close() }
func (c *c11CliSide) do(frame []byte) (*rawResp, error) {
	c.w.SetWriteDeadline(time.Now().Add(10 * time.Second))
	if _, err := c.w.Write(frame); err != nil {
		return nil, err
	}
	c.r.SetReadDeadline(time.Now().Add(10 * time.Second))
	return readFrame(c.r)
}

// ---------------------------------------------------------------------------------------------------------------
// descriptor accounting and tree snapshots

func c11CountFDs() int {
	ents, err := os.ReadDir("/proc/self/fd")
	if err != nil {
		return -1
	}
	return len(ents)
}

// c11SettleFDs waits (up to 2 s) for the descriptor count to come back to want. After 20 time-outs in one process the
// wait shrinks to 100 ms, so that a tree that really leaks does not take hours to report it.
var c11SettleTimeouts int

func c11SettleFDs(want int) int { return c11SettleFDsFor(want, 2*time.Second) }

func c11SettleFDsFor(want int, d time.Duration) int {
	if c11SettleTimeouts >= 20 && d > 100*time.Millisecond {
		d = 100 * time.Millisecond
	}
	deadline := time.Now().Add(d)
	for {
		n := c11CountFDs()
		if n <= want {
			return n
		}
		if time.Now().After(deadline) {
			c11SettleTimeouts++
			return n
		}
		time.Sleep(2 * time.Millisecond)
	}
}

// c11SnapTree: names, types, permissions, owners, sizes, contents (hash), link targets — no times.
func c11SnapTree(root string) map[string]string {
	out := map[string]string{}
	filepath.Walk(root, func(p string, fi os.FileInfo, err error) error {
		rel, _ := filepath.Rel(root, p)
		if err != nil {
			out[rel] = "error"
			return nil
		}
		if rel == "." {
			return nil
		}
		var uid, gid uint32
		if st, ok := fi.Sys().(*syscall.Stat_t); ok {
			uid, gid = st.Uid, st.Gid
		}
		desc := fmt.Sprintf("%v %d:%d", fi.Mode(), uid, gid)
		switch {
		case fi.Mode()&os.ModeSymlink != 0:
			t, _ := os.Readlink(p)
			desc += " -> " + strings.TrimPrefix(t, root)
		case fi.Mode().IsRegular():
			h := sha1.New()
			if f, err := os.Open(p); err == nil {
				io.CopyN(h, f, 1<<20)
				f.Close()
			}
			desc += fmt.Sprintf(" size=%d sha=%x", fi.Size(), h.Sum(nil)[:6])
		}
		out[rel] = desc
		return nil
	})
	return out
}

// c11SnapDiff describes the difference between two snapshots in a stable way ("" when equal).
func c11SnapDiff(want, got map[string]string) string {
	var d []string
	for k, v := range got {
		if w, ok := want[k]; !ok {
			d = append(d, "+"+k+"("+strings.SplitN(v, " ", 2)[0]+")")
		} else if w != v {
			d = append(d, "~"+k)
		}
	}
	for k := range want {
		if _, ok := got[k]; !ok {
			d = append(d, "-"+k)
		}
	}
	sort.Strings(d)
	for i := range d { // names may carry arbitrary bytes: keep the reason printable ASCII
		if q := strconv.QuoteToASCII(d[i]); q != `"`+d[i]+`"` {
			d[i] = q
		}
	}
	if len(d) > 4 {
		d = append(d[:4], "...")
	}
	return strings.Join(d, ",")
}

// ---------------------------------------------------------------------------------------------------------------
// instrumented in-memory backend (NOT sftp.InMemHandler)

type c11Node struct {
	dir      bool
	isLnk    bool
	link     string
	data     []byte
	mode     uint32
	mtime    uint32
	uid, gid uint32
}

type c11Obj struct {
	fs     *c11FS
	seq    int
	kind   string // reader | writer | rw | lister | statlister
	method string
	path   string
	node   *c11Node
	infos  []os.FileInfo
	ctx    context.Context

	closeErr bool // Close() reports an error (names containing "cerr"); the call is counted all the same
	listFail bool // ListAt fails with a backend fault (stat listers of names containing "badstat")

	nClose, nTE, nRead, nWrite, nList int
	ops                               []string
}

type c11OpenRec struct {
	method, path string
	ctx          context.Context
	obj          *c11Obj // nil when the handler refused
}

type c11FS struct {
	mu    sync.Mutex
	nodes map[string]*c11Node
	objs  []*c11Obj
	opens []*c11OpenRec
	log   []string // handler-level calls, in order (they are serialised by the server's single command worker)
	calls int      // every call into the backend or one of its objects
}

func newC11FS() *c11FS {
	return &c11FS{nodes: map[string]*c11Node{"/": {dir: true, mode: 0o755}}}
}

func (fs *c11FS) put(p string, data string, mode uint32) {
	fs.nodes[p] = &c11Node{data: []byte(data), mode: mode, mtime: 1000000000}
}
func (fs *c11FS) mkdir(p string) { fs.nodes[p] = &c11Node{dir: true, mode: 0o755, mtime: 1000000000} }
func (fs *c11FS) symlink(p, target string) {
	fs.nodes[p] = &c11Node{isLnk: true, link: target, mode: 0o777, mtime: 1000000000}
}

func (fs *c11FS) totalCalls() int {
	fs.mu.Lock()
	defer fs.mu.Unlock()
	return fs.calls
}

func (fs *c11FS) parentOK(p string) bool {
	n, ok := fs.nodes[path.Dir(p)]
	return ok && n.dir
}

// resolve follows symlinks (bounded).
func (fs *c11FS) resolve(p string) (string, *c11Node) {
	for i := 0; i < 8; i++ {
		n, ok := fs.nodes[p]
		if !ok {
			return p, nil
		}
		if !n.isLnk {
			return p, n
		}
		t := n.link
		if !path.IsAbs(t) {
			t = path.Join(path.Dir(p), t)
		}
		p = path.Clean(t)
	}
	return p, nil
}

var errC11Injected = errors.New("injected failure")
var errC11Close = errors.New("injected close error")

// c11Info is a value snapshot of a node taken under the backend lock (responses are marshalled later, on another goroutine).
type c11Info struct {
	name  string
	size  int64
	mode  os.FileMode
	mtime uint32
}

func c11InfoOf(name string, n *c11Node) c11Info {
	m := os.FileMode(n.mode & 0o777)
	if n.dir {
		m |= os.ModeDir
	}
	if n.isLnk {
		m |= os.ModeSymlink
	}
	return c11Info{name, int64(len(n.data)), m, n.mtime}
}

func (i c11Info) Name() string       { return i.name }
func (i c11Info) Size() int64        { return i.size }
func (i c11Info) Mode() os.FileMode  { return i.mode }
func (i c11Info) ModTime() time.Time { return time.Unix(int64(i.mtime), 0) }
func (i c11Info) IsDir() bool        { return i.mode.IsDir() }
func (i c11Info) Sys() any           { return nil }

func (fs *c11FS) newObj(kind string, r *sftp.Request, n *c11Node) *c11Obj {
	o := &c11Obj{fs: fs, seq: len(fs.objs), kind: kind, method: r.Method, path: r.Filepath, node: n, ctx: r.Context(),
		closeErr: strings.Contains(r.Filepath, "cerr")}
	fs.objs = append(fs.objs, o)
	return o
}

func (fs *c11FS) enter(r *sftp.Request, what string) {
	fs.calls++
	fs.log = append(fs.log, fmt.Sprintf("%s:%s:%s:%x:%s", what, r.Method, r.Filepath, r.Flags, r.Target))
}

func (o *c11Obj) readAt(b []byte, off int64) (int, error) {
	o.fs.mu.Lock()
	defer o.fs.mu.Unlock()
	o.fs.calls++
	o.nRead++
	o.ops = append(o.ops, fmt.Sprintf("R@%x+%x", off, len(b)))
	if off < 0 || off >= int64(len(o.node.data)) {
		return 0, io.EOF
	}
	n := copy(b, o.node.data[off:])
	if n < len(b) {
		return n, io.EOF
	}
	return n, nil
}

// c11WriteDelay: every WriteAt of the instrumented backend takes this long (set by c07's pipewrite cases: a slow backend)
var c11WriteDelay time.Duration

func (o *c11Obj) writeAt(b []byte, off int64) (int, error) {
	if c11WriteDelay > 0 {
		time.Sleep(c11WriteDelay)
	}
	o.fs.mu.Lock()
	defer o.fs.mu.Unlock()
	o.fs.calls++
	o.nWrite++
	sum := sha1.Sum(b)
	o.ops = append(o.ops, fmt.Sprintf("W@%x+%x:%x", off, len(b), sum[:4]))
	if off < 0 || off+int64(len(b)) > 1<<20 {
		return 0, errors.New("memfs: write beyond 1 MiB")
	}
	if need := int(off) + len(b); need > len(o.node.data) {
		o.node.data = append(o.node.data, make([]byte, need-len(o.node.data))...)
	}
	copy(o.node.data[off:], b)
	return len(b), nil
}

func (o *c11Obj) listAt(ls []os.FileInfo, off int64) (int, error) {
	o.fs.mu.Lock()
	defer o.fs.mu.Unlock()
	o.fs.calls++
	o.nList++
	o.ops = append(o.ops, fmt.Sprintf("L@%x+%x", off, len(ls)))
	if o.listFail {
		return 0, errC11Injected // a backend fault inside ListAt (not the end of the listing)
	}
	if off < 0 || off >= int64(len(o.infos)) {
		return 0, io.EOF
	}
	n := copy(ls, o.infos[off:])
	if n < len(ls) {
		return n, io.EOF
	}
	return n, nil
}

func (o *c11Obj) closeObj() error {
	o.fs.mu.Lock()
	defer o.fs.mu.Unlock()
	o.fs.calls++
	o.nClose++
	if o.closeErr {
		return errC11Close
	}
	return nil
}

func (o *c11Obj) transferErr(error) {
	o.fs.mu.Lock()
	defer o.fs.mu.Unlock()
	o.fs.calls++
	o.nTE++
}

type c11Reader struct{ o *c11Obj }

func (m c11Reader) ReadAt(b []byte, off int64) (int, error) { return m.o.readAt(b, off) }
func (m c11Reader) Close() error                            { return m.o.closeObj() }
func (m c11Reader) TransferError(err error)                 { m.o.transferErr(err) }

type c11Writer struct{ o *c11Obj }

func (m c11Writer) WriteAt(b []byte, off int64) (int, error) { return m.o.writeAt(b, off) }
func (m c11Writer) Close() error                             { return m.o.closeObj() }
func (m c11Writer) TransferError(err error)                  { m.o.transferErr(err) }

type c11RW struct{ o *c11Obj }

func (m c11RW) ReadAt(b []byte, off int64) (int, error)  { return m.o.readAt(b, off) }
func (m c11RW) WriteAt(b []byte, off int64) (int, error) { return m.o.writeAt(b, off) }
func (m c11RW) Close() error                             { return m.o.closeObj() }
func (m c11RW) TransferError(err error)                  { m.o.transferErr(err) }

type c11Lister struct{ o *c11Obj }

func (m c11Lister) ListAt(ls []os.FileInfo, off int64) (int, error) { return m.o.listAt(ls, off) }
func (m c11Lister) Close() error                                    { return m.o.closeObj() }

type c11Get struct{ fs *c11FS }

func (h c11Get) Fileread(r *sftp.Request) (io.ReaderAt, error) {
	fs := h.fs
	fs.mu.Lock()
	defer fs.mu.Unlock()
	fs.enter(r, "Fileread")
	rec := &c11OpenRec{method: r.Method, path: r.Filepath, ctx: r.Context()}
	fs.opens = append(fs.opens, rec)
	if strings.Contains(r.Filepath, "fail") {
		return nil, errC11Injected
	}
	_, n := fs.resolve(r.Filepath)
	if n == nil {
		return nil, os.ErrNotExist
	}
	if n.dir {
		return nil, errors.New("memfs: is a directory")
	}
	rec.obj = fs.newObj("reader", r, n)
	return c11Reader{rec.obj}, nil
}

// openForWrite applies the open flags; the caller holds the lock.
func (fs *c11FS) openForWrite(r *sftp.Request) (*c11Node, error) {
	if strings.Contains(r.Filepath, "fail") {
		return nil, errC11Injected
	}
	fl := r.Pflags()
	p, n := fs.resolve(r.Filepath)
	switch {
	case n != nil && n.dir:
		return nil, errors.New("memfs: is a directory")
	case n != nil && fl.Creat && fl.Excl:
		return nil, os.ErrExist
	case n == nil && !fl.Creat:
		return nil, os.ErrNotExist
	case n == nil:
		if !fs.parentOK(p) {
			return nil, os.ErrNotExist
		}
		// (the attribute flags of an OPEN never reach the handler: Request.Flags carries the pflags)
		n = &c11Node{mode: 0o644, mtime: 1000000000}
		fs.nodes[p] = n
	}
	if fl.Trunc {
		n.data = nil
	}
	return n, nil
}

type c11Put struct{ fs *c11FS }

func (h c11Put) Filewrite(r *sftp.Request) (io.WriterAt, error) {
	fs := h.fs
	fs.mu.Lock()
	defer fs.mu.Unlock()
	fs.enter(r, "Filewrite")
	rec := &c11OpenRec{method: r.Method, path: r.Filepath, ctx: r.Context()}
	fs.opens = append(fs.opens, rec)
	n, err := fs.openForWrite(r)
	if err != nil {
		return nil, err
	}
	rec.obj = fs.newObj("writer", r, n)
	return c11Writer{rec.obj}, nil
}

type c11PutOpen struct{ c11Put }

func (h c11PutOpen) OpenFile(r *sftp.Request) (sftp.WriterAtReaderAt, error) {
	fs := h.fs
	fs.mu.Lock()
	defer fs.mu.Unlock()
	fs.enter(r, "OpenFile")
	rec := &c11OpenRec{method: r.Method, path: r.Filepath, ctx: r.Context()}
	fs.opens = append(fs.opens, rec)
	n, err := fs.openForWrite(r)
	if err != nil {
		return nil, err
	}
	rec.obj = fs.newObj("rw", r, n)
	return c11RW{rec.obj}, nil
}

type c11Cmd struct{ fs *c11FS }

func (h c11Cmd) Filecmd(r *sftp.Request) error {
	fs := h.fs
	fs.mu.Lock()
	defer fs.mu.Unlock()
	fs.enter(r, "Filecmd")
	switch r.Method {
	case "Setstat":
		_, n := fs.resolve(r.Filepath)
		if n == nil {
			return os.ErrNotExist
		}
		fl, a := r.AttrFlags(), r.Attributes()
		if a == nil {
			return errors.New("memfs: bad attributes")
		}
		if fl.Size {
			if n.dir || a.Size > 1<<20 {
				return errors.New("memfs: bad size")
			}
			if int(a.Size) <= len(n.data) {
				n.data = n.data[:a.Size]
			} else {
				n.data = append(n.data, make([]byte, int(a.Size)-len(n.data))...)
			}
		}
		if fl.Permissions {
			n.mode = a.Mode & 0o7777
		}
		if fl.UidGid {
			n.uid, n.gid = a.UID, a.GID
		}
		if fl.Acmodtime {
			n.mtime = a.Mtime
		}
		return nil
	case "Rename", "PosixRename":
		n, ok := fs.nodes[r.Filepath]
		if !ok {
			return os.ErrNotExist
		}
		if _, exists := fs.nodes[r.Target]; exists || !fs.parentOK(r.Target) || r.Filepath == "/" ||
			strings.HasPrefix(r.Target+"/", r.Filepath+"/") {
			return errors.New("memfs: bad rename target")
		}
		moved := map[string]*c11Node{r.Target: n}
		for p, c := range fs.nodes {
			if strings.HasPrefix(p, r.Filepath+"/") {
				moved[r.Target+p[len(r.Filepath):]] = c
				delete(fs.nodes, p)
			}
		}
		delete(fs.nodes, r.Filepath)
		for p, c := range moved {
			fs.nodes[p] = c
		}
		return nil
	case "Rmdir":
		n, ok := fs.nodes[r.Filepath]
		if !ok {
			return os.ErrNotExist
		}
		if !n.dir || r.Filepath == "/" {
			return errors.New("memfs: not a directory")
		}
		for p := range fs.nodes {
			if strings.HasPrefix(p, r.Filepath+"/") {
				return errors.New("memfs: directory not empty")
			}
		}
		delete(fs.nodes, r.Filepath)
		return nil
	case "Mkdir":
		if _, ok := fs.nodes[r.Filepath]; ok {
			return os.ErrExist
		}
		if !fs.parentOK(r.Filepath) {
			return os.ErrNotExist
		}
		fs.mkdir(r.Filepath)
		return nil
	case "Remove":
		n, ok := fs.nodes[r.Filepath]
		if !ok {
			return os.ErrNotExist
		}
		if n.dir {
			return errors.New("memfs: is a directory")
		}
		delete(fs.nodes, r.Filepath)
		return nil
	case "Symlink":
		if _, ok := fs.nodes[r.Target]; ok {
			return os.ErrExist
		}
		if !fs.parentOK(r.Target) {
			return os.ErrNotExist
		}
		fs.symlink(r.Target, r.Filepath)
		return nil
	case "Link":
		n, ok := fs.nodes[r.Filepath]
		if !ok || n.dir {
			return os.ErrNotExist
		}
		if _, ok := fs.nodes[r.Target]; ok {
			return os.ErrExist
		}
		if !fs.parentOK(r.Target) {
			return os.ErrNotExist
		}
		fs.nodes[r.Target] = n
		return nil
	}
	return sftp.ErrSSHFxOpUnsupported
}

type c11List struct{ fs *c11FS }

func (h c11List) Filelist(r *sftp.Request) (sftp.ListerAt, error) {
	return h.fs.filelist(r, "Filelist")
}

type c11ListL struct{ c11List }

func (h c11ListL) Lstat(r *sftp.Request) (sftp.ListerAt, error) { return h.fs.filelist(r, "Lstat") }

func (fs *c11FS) filelist(r *sftp.Request, entry string) (sftp.ListerAt, error) {
	fs.mu.Lock()
	defer fs.mu.Unlock()
	fs.enter(r, entry)
	switch {
	case r.Method == "List":
		rec := &c11OpenRec{method: r.Method, path: r.Filepath, ctx: r.Context()}
		fs.opens = append(fs.opens, rec)
		if strings.Contains(r.Filepath, "fail") {
			return nil, errC11Injected
		}
		p, n := fs.resolve(r.Filepath)
		if n == nil {
			return nil, os.ErrNotExist
		}
		if !n.dir {
			return nil, errors.New("memfs: not a directory")
		}
		var names []string
		pre := strings.TrimSuffix(p, "/") + "/"
		for q := range fs.nodes {
			if q != "/" && strings.HasPrefix(q, pre) && !strings.Contains(q[len(pre):], "/") {
				names = append(names, q)
			}
		}
		sort.Strings(names)
		rec.obj = fs.newObj("lister", r, n)
		for _, q := range names {
			rec.obj.infos = append(rec.obj.infos, c11InfoOf(path.Base(q), fs.nodes[q]))
		}
		return c11Lister{rec.obj}, nil
	case entry == "Lstat" || r.Method == "Lstat":
		n, ok := fs.nodes[r.Filepath]
		if !ok {
			return nil, os.ErrNotExist
		}
		o := fs.newObj("statlister", r, n)
		o.infos = []os.FileInfo{c11InfoOf(path.Base(r.Filepath), n)}
		o.listFail = strings.Contains(r.Filepath, "badstat")
		return c11Lister{o}, nil
	case r.Method == "Stat":
		_, n := fs.resolve(r.Filepath)
		if n == nil {
			return nil, os.ErrNotExist
		}
		o := fs.newObj("statlister", r, n)
		o.infos = []os.FileInfo{c11InfoOf(path.Base(r.Filepath), n)}
		o.listFail = strings.Contains(r.Filepath, "badstat")
		return c11Lister{o}, nil
	case r.Method == "Readlink":
		n, ok := fs.nodes[r.Filepath]
		if !ok {
			return nil, os.ErrNotExist
		}
		if !n.isLnk {
			return nil, errors.New("memfs: not a symlink")
		}
		o := fs.newObj("statlister", r, n)
		o.infos = []os.FileInfo{c11InfoOf(n.link, n)}
		return c11Lister{o}, nil
	}
	return nil, sftp.ErrSSHFxOpUnsupported
}

func (fs *c11FS) handlers(rich bool) sftp.Handlers {
	h := sftp.Handlers{FileGet: c11Get{fs}, FileCmd: c11Cmd{fs}, FilePut: c11Put{fs}, FileList: c11List{fs}}
	if rich {
		h.FilePut = c11PutOpen{c11Put{fs}}
		h.FileList = c11ListL{c11List{fs}}
	}
	return h
}

// snapshot: the tree (names, types, modes, owners, sizes, contents) as a map like c11SnapTree.
func (fs *c11FS) snapshot() map[string]string {
	fs.mu.Lock()
	defer fs.mu.Unlock()
	out := map[string]string{}
	for p, n := range fs.nodes {
		if p == "/" {
			continue
		}
		sum := sha1.Sum(n.data)
		out[strings.TrimPrefix(p, "/")] = fmt.Sprintf("%v %d:%d mtime=%d size=%d sha=%x -> %s", c11InfoOf("", n).Mode(), n.uid, n.gid, n.mtime, len(n.data), sum[:6], n.link)
	}
	return out
}

// ---------------------------------------------------------------------------------------------------------------
// C11 sessions

type c11Op struct {
	typ    byte
	name   string // path (opens and path requests)
	pflags uint32
	slot   int    // index of the OPEN/OPENDIR whose handle is named; -1: a handle that was never issued
	bogus  string // "999", "", "abc", "next"
}

var c11FxpNames = map[byte]string{fxpOpen: "OPEN", fxpClose: "CLOSE", fxpRead: "READ", fxpWrite: "WRITE", fxpLstat: "LSTAT", fxpFstat: "FSTAT",
	fxpFsetstat: "FSETSTAT", fxpOpendir: "OPENDIR", fxpReaddir: "READDIR", fxpStat: "STAT", fxpReadlink: "READLINK"}

func c11Populate(dir string) {
	os.WriteFile(filepath.Join(dir, "a.txt"), []byte("0123456789abcdefghij"), 0o644)
	os.WriteFile(filepath.Join(dir, "b.bin"), []byte(strings.Repeat("B", 300)), 0o600)
	os.Mkdir(filepath.Join(dir, "d"), 0o755)
	os.WriteFile(filepath.Join(dir, "d", "e1"), []byte("e1"), 0o644)
	os.WriteFile(filepath.Join(dir, "d", "e2"), []byte("e2e2"), 0o644)
	os.Mkdir(filepath.Join(dir, "d", "sub"), 0o755)
	os.Symlink("a.txt", filepath.Join(dir, "lnk"))
	os.WriteFile(filepath.Join(dir, "cerr.txt"), []byte("close of this one fails"), 0o644)
	os.Mkdir(filepath.Join(dir, "cerrd"), 0o755)
	os.WriteFile(filepath.Join(dir, "cerrd", "x"), []byte("x"), 0o644)
}

func (fs *c11FS) populateC11() {
	fs.put("/a.txt", "0123456789abcdefghij", 0o644)
	fs.put("/b.bin", strings.Repeat("B", 300), 0o600)
	fs.mkdir("/d")
	fs.put("/d/e1", "e1", 0o644)
	fs.put("/d/e2", "e2e2", 0o644)
	fs.mkdir("/d/sub")
	fs.symlink("/lnk", "a.txt")
	fs.put("/cerr.txt", "close of this one fails", 0o644)
	fs.mkdir("/cerrd")
	fs.put("/cerrd/x", "x", 0o644)
	fs.put("/badstat", "the lister handed out for a stat of this one fails inside ListAt", 0o644)
}

func c11Gen(rng *rand.Rand) []c11Op {
	n := 6 + rng.Intn(20)
	type slotInfo struct {
		kind   string // r w rw dir
		ok     bool   // predicted
		closed bool
	}
	var slots []slotInfo
	files := []string{"a.txt", "b.bin", "d/e1", "d/e2", "cerr.txt"}
	dirs := []string{"d", "d/sub", ".", "cerrd"}
	missing := []string{"nope", "d/nope", "nodir/x"}
	failing := []string{"fail.txt", "d/xfail", "failures"}
	newCount := 0
	pick := func(l []string) string { return l[rng.Intn(len(l))] }
	var ops []c11Op
	sel := func(want func(slotInfo) bool) []int {
		var out []int
		for i, s := range slots {
			if want(s) {
				out = append(out, i)
			}
		}
		return out
	}
	handleOp := func(kind string, mismatch bool) byte {
		all := []byte{fxpRead, fxpWrite, fxpReaddir, fxpFstat, fxpFsetstat}
		if mismatch {
			return all[rng.Intn(len(all))]
		}
		switch kind {
		case "r":
			return []byte{fxpRead, fxpRead, fxpFstat}[rng.Intn(3)]
		case "w":
			return []byte{fxpWrite, fxpWrite, fxpFstat, fxpFsetstat}[rng.Intn(4)]
		case "rw":
			return []byte{fxpRead, fxpWrite, fxpFstat, fxpFsetstat}[rng.Intn(4)]
		}
		return []byte{fxpReaddir, fxpReaddir, fxpFstat}[rng.Intn(3)]
	}
	// about half of the sessions carry, somewhere, the scripted episode "open an object whose Close() fails, CLOSE it,
	// use the dead handle, CLOSE it again" (request server: names containing "cerr"; plain files for the os server)
	cerrAt := -1
	if rng.Intn(100) < 55 {
		cerrAt = rng.Intn(n - 4)
	}
	for len(ops) < n {
		if cerrAt >= 0 && len(ops) >= cerrAt {
			cerrAt = -1
			s := len(slots)
			var stale byte
			switch rng.Intn(4) {
			case 0:
				ops, stale = append(ops, c11Op{typ: fxpOpen, name: "cerr.txt", pflags: 1, slot: -1}), fxpRead
				slots = append(slots, slotInfo{"r", true, true})
			case 1:
				newCount++
				ops, stale = append(ops, c11Op{typ: fxpOpen, name: fmt.Sprintf("cerrnew%d", newCount), pflags: 0x1a, slot: -1}), fxpWrite
				slots = append(slots, slotInfo{"w", true, true})
			case 2:
				ops, stale = append(ops, c11Op{typ: fxpOpen, name: "cerr.txt", pflags: 3, slot: -1}), []byte{fxpRead, fxpWrite}[rng.Intn(2)]
				slots = append(slots, slotInfo{"rw", true, true})
			default:
				ops, stale = append(ops, c11Op{typ: fxpOpendir, name: "cerrd", slot: -1}), fxpReaddir
				slots = append(slots, slotInfo{"dir", true, true})
			}
			if rng.Intn(2) == 0 {
				ops = append(ops, c11Op{typ: handleOp(slots[s].kind, false), slot: s})
			}
			ops = append(ops, c11Op{typ: fxpClose, slot: s})
			if rng.Intn(3) == 0 {
				stale = []byte{fxpFstat, fxpFsetstat}[rng.Intn(2)]
			}
			ops = append(ops, c11Op{typ: stale, slot: s}, c11Op{typ: fxpClose, slot: s})
			continue
		}
		live := sel(func(s slotInfo) bool { return s.ok && !s.closed })
		closed := sel(func(s slotInfo) bool { return s.ok && s.closed })
		r := rng.Intn(100)
		switch {
		case r < 30 && len(live) > 0:
			s := live[rng.Intn(len(live))]
			ops = append(ops, c11Op{typ: handleOp(slots[s].kind, rng.Intn(10) == 0), slot: s})
		case r < 42 && len(live) > 0:
			s := live[rng.Intn(len(live))]
			slots[s].closed = true
			ops = append(ops, c11Op{typ: fxpClose, slot: s})
		case r < 56 && len(closed) > 0:
			s := closed[rng.Intn(len(closed))]
			t := handleOp(slots[s].kind, false)
			if rng.Intn(3) == 0 {
				t = fxpClose
			}
			ops = append(ops, c11Op{typ: t, slot: s})
		case r < 66:
			t := []byte{fxpRead, fxpWrite, fxpReaddir, fxpFstat, fxpFsetstat, fxpClose}[rng.Intn(6)]
			ops = append(ops, c11Op{typ: t, slot: -1, bogus: []string{"999", "", "abc", "next"}[rng.Intn(4)]})
		case r < 74:
			t := []byte{fxpStat, fxpLstat, fxpReadlink}[rng.Intn(3)]
			nm := pick([]string{"a.txt", "d", "lnk", "lnk", "nope", "d/e1", "badstat"})
			ops = append(ops, c11Op{typ: t, name: nm, slot: -1})
		default: // an open of some kind
			k := rng.Intn(100)
			which := rng.Intn(100)
			switch {
			case k < 25:
				nm, ok := pick(dirs), true
				if which >= 65 && which < 85 {
					nm, ok = pick(missing), false
				} else if which >= 85 {
					nm, ok = pick(failing), false
				}
				ops = append(ops, c11Op{typ: fxpOpendir, name: nm, slot: -1})
				slots = append(slots, slotInfo{"dir", ok, false})
			case k < 60:
				nm, ok := pick(files), true
				if which >= 65 && which < 85 {
					nm, ok = pick(missing), false
				} else if which >= 85 {
					nm, ok = pick(failing), false
				}
				ops = append(ops, c11Op{typ: fxpOpen, name: nm, pflags: 1, slot: -1})
				slots = append(slots, slotInfo{"r", ok, false})
			default:
				kind, pf := "w", uint32(2)
				if k >= 85 {
					kind, pf = "rw", 3
				}
				nm, ok := pick(files), true
				switch {
				case which < 35:
				case which < 65:
					newCount++
					nm, pf = fmt.Sprintf("new%d", newCount), pf|0x08|0x10
					files = append(files, nm)
				case which < 85:
					nm, ok = pick(missing), false
				default:
					nm, pf, ok = pick(failing), pf|0x08, false
				}
				ops = append(ops, c11Op{typ: fxpOpen, name: nm, pflags: pf, slot: -1})
				slots = append(slots, slotInfo{kind, ok, false})
			}
		}
	}
	return ops
}

type c11Outcome struct {
	fails     []string // oracle violations other than the stat-lister one, in order of detection
	statFail  string
	lens      []int // frame length of every request that was built
	opensOK   int
	openAtEnd int
	staleOps  int
	stats     []string
	diags     []string
}

// c11Run executes the first nFull requests of the session (each answered before the next is sent), then `partial`
// bytes of request nFull, then ends the connection (clean: only the client->server direction is closed and the
// responses are drained to EOF; otherwise both directions are dropped at once).
func c11Run(srv string, alloc, rich bool, ops []c11Op, nFull, partial int, clean bool, work string) (out c11Outcome) {
	fail := func(format string, a ...any) { out.fails = append(out.fails, fmt.Sprintf(format, a...)) }
	isOS := srv == "os"
	var fs *c11FS
	opt := pairOpt{alloc: alloc}
	baseFD := 0
	if isOS {
		os.RemoveAll(work)
		os.Mkdir(work, 0o755)
		c11Populate(work)
		opt.workDir = work
		old := debug.SetGCPercent(-1) // no finalizer may close a leaked descriptor behind our back
		defer debug.SetGCPercent(old)
		baseFD = c11CountFDs()
	} else {
		fs = newC11FS()
		fs.populateC11()
		opt.reqServer, opt.handlers = true, fs.handlers(rich)
	}
	cli, ss := c11NewDuplex()
	done, err := startServer(ss, opt)
	if err != nil {
		fail("harness: cannot start server: %v", err)
		return
	}
	defer cli.closeAll()
	if r, err := cli.do(rawInit()); err != nil || r.Typ != fxpVersion {
		fail("no-response: INIT")
	}
	var slotHandle []string   // per open, "" when refused
	var slotClosed []bool     // CLOSE answered OK
	var slotObj []*c11Obj     // request server: the object behind the handle
	seen := map[string]bool{} // every handle ever issued
	maxNum := 0
	liveCount := 0
	build := func(i int) (frame []byte, class string, h string) {
		op := ops[i]
		id := uint32(i + 1)
		switch op.typ {
		case fxpOpen:
			return rawOpen(id, op.name, op.pflags, 0, nil), "open", ""
		case fxpOpendir:
			return rawPathOp(fxpOpendir, id, op.name), "open", ""
		case fxpStat, fxpLstat, fxpReadlink:
			return rawPathOp(op.typ, id, op.name), "path", ""
		}
		class = "never"
		switch {
		case op.slot >= 0 && op.slot < len(slotHandle) && slotHandle[op.slot] != "":
			h, class = slotHandle[op.slot], "live"
			if slotClosed[op.slot] {
				class = "closed"
			}
		case op.slot >= 0:
			h = "999"
		case op.bogus == "next":
			h = strconv.Itoa(maxNum + 1)
		default:
			h = op.bogus
		}
		switch op.typ {
		case fxpRead:
			frame = rawRead(id, h, 2, 10)
		case fxpWrite:
			frame = rawWrite(id, h, 1, []byte("WRITE"))
		case fxpFsetstat:
			frame = rawFsetstat(id, h, 1, attrBlock(1, 7, 0, 0, 0, 0, 0))
		default:
			frame = rawHandleOp(op.typ, id, h)
		}
		return frame, class, h
	}
	aborted, fdOff := false, false
	for i := 0; i < nFull && !aborted; i++ {
		op := ops[i]
		frame, class, h := build(i)
		out.lens = append(out.lens, len(frame))
		nm := c11FxpNames[op.typ]
		callsBefore, objsBefore := 0, 0
		var diskBefore map[string]string
		if fs != nil {
			callsBefore = fs.totalCalls()
			fs.mu.Lock()
			objsBefore = len(fs.objs)
			fs.mu.Unlock()
		} else if class == "never" || class == "closed" {
			diskBefore = c11SnapTree(work)
		}
		var liveObj *c11Obj
		rBefore, wBefore := 0, 0
		if fs != nil && class == "live" {
			if liveObj = slotObj[op.slot]; liveObj != nil {
				fs.mu.Lock()
				rBefore, wBefore = liveObj.nRead, liveObj.nWrite
				fs.mu.Unlock()
			}
		}
		resp, err := cli.do(frame)
		if liveObj != nil && err == nil {
			fs.mu.Lock()
			if op.typ == fxpRead && liveObj.nWrite != wBefore {
				out.stats = append(out.stats, "side_READ_request_reached_WriteAt_of_"+liveObj.kind)
			}
			if op.typ == fxpWrite && liveObj.nRead != rBefore {
				out.stats = append(out.stats, "side_WRITE_request_reached_ReadAt_of_"+liveObj.kind)
			}
			fs.mu.Unlock()
		}
		if err != nil {
			fail("no-response: request %s(%s) was not answered", nm, class)
			aborted = true
			break
		}
		code, isStatus := resp.statusCode()
		out.stats = append(out.stats, "op_"+nm+"_"+class)
		switch class {
		case "open":
			nh, ok := resp.handle()
			if !ok {
				slotHandle, slotClosed, slotObj = append(slotHandle, ""), append(slotClosed, false), append(slotObj, nil)
				out.stats = append(out.stats, "open_refused")
				break
			}
			out.opensOK++
			if seen[nh] {
				fail("handle-reused: handle %q issued twice in one session", nh)
			}
			seen[nh] = true
			if v, err := strconv.Atoi(nh); err == nil && v > maxNum {
				maxNum = v
			}
			liveCount++
			var obj *c11Obj
			if fs != nil {
				fs.mu.Lock()
				for _, o := range fs.objs[objsBefore:] {
					if o.kind != "statlister" {
						obj = o
					}
				}
				fs.mu.Unlock()
				if obj == nil {
					fail("handle-without-object: %s answered HANDLE but no handler object was obtained", nm)
				}
			}
			slotHandle, slotClosed, slotObj = append(slotHandle, nh), append(slotClosed, false), append(slotObj, obj)
		case "never", "closed":
			out.staleOps++
			what := map[string]string{"never": "never-issued", "closed": "closed"}[class]
			if !isStatus || code == 0 || code == 1 {
				fail("stale-handle-accepted: %s on a %s handle answered type %d code %d", nm, what, resp.Typ, code)
			}
			if fs != nil {
				if c := fs.totalCalls(); c != callsBefore {
					fail("stale-handle-touched-handler: %s on a %s handle made %d backend calls", nm, what, c-callsBefore)
				}
			} else if d := c11SnapDiff(diskBefore, c11SnapTree(work)); d != "" {
				fail("stale-handle-changed-disk: %s on a %s handle: %s", nm, what, d)
			}
		case "live":
			if op.typ != fxpClose {
				break
			}
			// an object whose Close() reports an error may make the CLOSE fail; the handle is dead all the same
			closeMayFail := slotObj[op.slot] != nil && slotObj[op.slot].closeErr
			if !isStatus || (code != 0 && !closeMayFail) {
				fail("close-failed: CLOSE of an open handle answered type %d code %d", resp.Typ, code)
				break
			}
			if closeMayFail {
				out.stats = append(out.stats, fmt.Sprintf("close_of_failing_closer_status_%d", code))
			}
			slotClosed[op.slot] = true
			liveCount--
			if o := slotObj[op.slot]; o != nil {
				fs.mu.Lock()
				nc := o.nClose
				fs.mu.Unlock()
				if nc != 1 {
					fail("close-count: %s object closed %d times when its handle was closed", o.kind, nc)
				}
				if o.ctx.Err() == nil {
					fail("ctx-not-cancelled-after-close: context of the %s open still live after CLOSE", o.method)
				}
			}
		}
		if isOS && !fdOff {
			if n := c11CountFDs(); n != baseFD+liveCount {
				// opening and closing are synchronous with the response; the short wait only absorbs runtime noise
				if n2 := c11SettleFDsFor(baseFD+liveCount, 100*time.Millisecond); n2 != baseFD+liveCount {
					fail("fd-live-mismatch: after %s(%s) %d handles are open but %d descriptors are", nm, class, liveCount, n2-baseFD)
					fdOff = true // reported once per run
				}
			}
		}
		_ = h
	}
	if partial < 0 && !aborted {
		// instead of request nFull: one complete frame that does not decode (partial = -1: a packet type no server knows;
		// -2: an OPEN whose path length points beyond the packet), then the connection is dropped
		bad := []byte{0, 0, 0, 5, 0xF0, 0, 0, 0, 1}
		if partial == -2 {
			bad = []byte{0, 0, 0, 10, fxpOpen, 0, 0, 0x23, 0x29, 0, 0, 0, 200, 'x'}
		}
		cli.w.SetWriteDeadline(time.Now().Add(10 * time.Second))
		cli.w.Write(bad)
		select { // the server ends the session by itself on such a packet
		case <-done:
			done <- nil
		case <-time.After(300 * time.Millisecond):
		}
	}
	if partial > 0 && !aborted && nFull < len(ops) {
		frame, _, _ := build(nFull)
		if partial < len(frame) {
			cli.w.SetWriteDeadline(time.Now().Add(10 * time.Second))
			cli.w.Write(frame[:partial])
		}
	}
	if clean {
		cli.closeWrite()
		cli.r.SetReadDeadline(time.Now().Add(10 * time.Second))
		if extra, _ := io.ReadAll(cli.r); len(extra) != 0 {
			fail("unsolicited-response: %d bytes after the last answered request", len(extra))
		}
	}
	cli.closeAll()
	select {
	case <-done:
	case <-time.After(10 * time.Second):
		fail("serve-hang: Serve did not return within 10s of the connection ending")
		return
	}
	out.openAtEnd = liveCount
	if isOS {
		if n := c11SettleFDs(baseFD); n > baseFD {
			fail("fd-leak: %d descriptors more than before the session after Serve returned (%d handles were open at the end)", n-baseFD, liveCount)
		}
		return
	}
	fs.mu.Lock()
	defer fs.mu.Unlock()
	openObj := map[*c11Obj]bool{}
	for s, o := range slotObj {
		if o != nil && !slotClosed[s] {
			openObj[o] = true
		}
	}
	statTotal, statOpen := 0, 0
	for _, o := range fs.objs {
		if o.kind == "statlister" {
			statTotal++
			if o.nClose != 1 {
				statOpen++
			}
			continue
		}
		state := "closed by CLOSE"
		if openObj[o] {
			state = "open at the end"
		}
		if o.nClose != 1 {
			fail("close-count: %s object (%s, handle %s) closed %d times by the time Serve returned", o.kind, o.method, state, o.nClose)
		}
		wantTE := 0
		if openObj[o] && o.kind != "lister" {
			wantTE = 1
		}
		if o.nTE != wantTE {
			fail("transfer-error-count: %s object (handle %s) got TransferError %d times, want %d", o.kind, state, o.nTE, wantTE)
		}
	}
	for _, rec := range fs.opens {
		if rec.ctx.Err() == nil {
			fail("ctx-not-cancelled-at-end: context handed to the %s handler still live after Serve returned", rec.method)
			break
		}
	}
	if statOpen > 0 {
		out.statFail = fmt.Sprintf("stat-lister-not-closed: %d of %d ListerAt objects obtained for Stat/Lstat/Readlink/Fstat requests were never closed", statOpen, statTotal)
	}
	return
}

func runC11(c *Ctx) {
	c.Rule("generated sessions of 6-25 raw requests (OPEN read/write/read+write and OPENDIR on existing, missing and handler-refused names; READ/WRITE/READDIR/FSTAT/FSETSTAT/CLOSE on live, " +
		"closed and never-issued handles; STAT/LSTAT/READLINK in between; about half of the sessions contain: open an object whose Close() returns an error - names with \"cerr\" - CLOSE, use of the dead handle, CLOSE again), each request answered before the next; every session is ended cleanly, after request i for every i, and inside its last packet; " +
		"os server: descriptors counted in /proc/self/fd after every request and after Serve returned; request server: instrumented reader/writer/read-writer/lister objects and recorded contexts " +
		"(OpenFileWriter+LstatFileLister in sessions with bit 1 set, allocator in odd sessions); kind badpkt: after every number of requests one complete frame that does not decode (unknown type / OPEN with an impossible path length) instead of the next request, then the connection is dropped; non-trivial = at least one open succeeded and (a handle was still open at the end or a closed/never-issued handle was used)")
	root, err := os.MkdirTemp("", "vh-c11-")
	if err != nil {
		c.Diag("mktemp: %v", err)
		return
	}
	defer os.RemoveAll(root)
	work := filepath.Join(root, "w")
	nSess := map[string]int{"os": 300, "req": 800}
	if c.Thorough() {
		nSess = map[string]int{"os": 2000, "req": 6000}
	}
	if len(c.Args) > 0 {
		if v, err := strconv.Atoi(c.Args[0]); err == nil {
			nSess = map[string]int{"os": v, "req": v}
		}
	}
	// first the cases that run in a child process: a server that panics there is an oracle failure with its input, whereas a panic in
	// the in-process sessions below takes the family down
	c11Prebuffered(c, work)
	// warm up whatever the runtime opens lazily (epoll, /proc) before any baseline is taken
	c11Run("os", false, false, c11Gen(rand.New(rand.NewSource(1))), 3, 0, true, work)
	maxSess := nSess["req"]
	if nSess["os"] > maxSess {
		maxSess = nSess["os"]
	}
	sessions := make([][]c11Op, maxSess)
	for i := range sessions {
		sessions[i] = c11Gen(c.Rng)
	}
	failCount := map[string]int{}
	for _, srv := range []string{"os", "req"} {
		for s := 0; s < nSess[srv]; s++ {
			ops := sessions[s]
			alloc, rich := s&1 == 1, s&2 == 2
			emit := func(end string, at int, o c11Outcome) {
				n := c.Case("session", kvs("srv", srv), kvi("sess", s), kvs("end", end), kvi("at", at))
				if o.opensOK > 0 && (o.openAtEnd > 0 || o.staleOps > 0) {
					c.NT(n)
				}
				for _, st := range o.stats {
					c.Stat(st)
				}
				c.Stat("end_" + srv + "_" + end)
				switch {
				case o.openAtEnd == 0:
					c.Stat("open_at_end_0")
				case o.openAtEnd <= 2:
					c.Stat("open_at_end_1-2")
				default:
					c.Stat("open_at_end_3+")
				}
				switch {
				case len(o.fails) > 0:
					c.Oracle(n, false, o.fails[0])
					failCount[strings.SplitN(o.fails[0], ":", 2)[0]]++
				case o.statFail != "":
					c.Oracle(n, false, o.statFail)
					failCount["stat-lister-not-closed"]++
				default:
					c.Oracle(n, true, "")
				}
			}
			full := c11Run(srv, alloc, rich, ops, len(ops), 0, true, work)
			emit("clean", len(ops), full)
			for i := 0; i <= len(ops); i++ {
				emit("after", i, c11Run(srv, alloc, rich, ops, i, 0, false, work))
			}
			lastLen := 0
			if len(full.lens) == len(ops) {
				lastLen = full.lens[len(ops)-1]
			}
			var cuts []int
			if c.Thorough() {
				for k := 1; k < lastLen; k++ {
					cuts = append(cuts, k)
				}
			} else {
				for _, k := range []int{1, 3, 4, 5, 9, lastLen - 1} {
					if k >= 1 && k < lastLen && (len(cuts) == 0 || cuts[len(cuts)-1] < k) {
						cuts = append(cuts, k)
					}
				}
			}
			for _, k := range cuts {
				emit("mid", k, c11Run(srv, alloc, rich, ops, len(ops)-1, k, false, work))
			}
			// a well-framed packet that does not decode, after every number of requests (handles may be open at that point)
			for i := 0; i <= len(ops); i++ {
				if !c.Thorough() && i%2 == 1 && i != len(ops) {
					continue
				}
				emit("badpkt", i, c11Run(srv, alloc, rich, ops, i, -1-(i%2), false, work))
			}
		}
	}
	c11SlowOpens(c, work)
	keys := make([]string, 0, len(failCount))
	for k := range failCount {
		keys = append(keys, k)
	}
	sort.Strings(keys)
	for _, k := range keys {
		c.Diag("c11 failures %s: %d", k, failCount[k])
	}
}

// c11SlowOpens (kind slowopen, os-backed server): the connection ends while an OPEN that the server has already received is
// still inside os.OpenFile (a FIFO nobody has opened for writing yet). The open completes only after the receive loop is
// gone. When Serve has returned, that file must be closed as well: the descriptor count is back at its baseline.
func c11SlowOpens(c *Ctx, work string) {
	old := debug.SetGCPercent(-1)
	defer debug.SetGCPercent(old)
	for i := 0; i < 6; i++ {
		alloc := i%2 == 1
		os.RemoveAll(work)
		os.Mkdir(work, 0o755)
		os.WriteFile(filepath.Join(work, "reg"), []byte("regular"), 0o644)
		fifo := filepath.Join(work, "pipe")
		if err := syscall.Mkfifo(fifo, 0o644); err != nil {
			c.Diag("slowopen: mkfifo: %v", err)
			return
		}
		base := c11CountFDs()
		cli, ss := c11NewDuplex()
		done, err := startServer(ss, pairOpt{alloc: alloc, workDir: work})
		if err != nil {
			c.Diag("slowopen: %v", err)
			return
		}
		n := c.Case("slowopen", kvi("i", i), kvb("alloc", alloc), kvi("held", i/2))
		c.NT(n)
		c.Stat("slowopen_cases")
		ok, why := true, ""
		if r, err := cli.do(rawInit()); err != nil || r.Typ != fxpVersion {
			ok, why = false, "harness: no VERSION"
		}
		for k := 0; ok && k < i/2; k++ { // some ordinary handles left open as well
			if r, err := cli.do(rawOpen(uint32(10+k), "reg", 1, 0, nil)); err != nil || r.Typ != fxpHandle {
				ok, why = false, "harness: OPEN of a regular file was not answered with a handle"
			}
		}
		if ok {
			cli.w.SetWriteDeadline(time.Now().Add(5 * time.Second))
			if _, err := cli.w.Write(rawOpen(99, "pipe", 1, 0, nil)); err != nil {
				ok, why = false, "harness: cannot send the OPEN of the FIFO"
			}
		}
		time.Sleep(30 * time.Millisecond) // the worker is inside os.OpenFile now
		cli.closeAll()                    // the connection ends
		time.Sleep(60 * time.Millisecond) // the receive loop has noticed
		// let the open complete: open the other end of the FIFO, then close it again
		if w, err := os.OpenFile(fifo, os.O_WRONLY|syscall.O_NONBLOCK, 0); err == nil {
			w.Close()
		} else if ok {
			// nobody is reading yet (ENXIO): the server never got as far as opening it; open it blocking, with a watchdog
			opened := make(chan struct{})
			go func() {
				if w, err := os.OpenFile(fifo, os.O_WRONLY, 0); err == nil {
					w.Close()
				}
				close(opened)
			}()
			select {
			case <-opened:
			case <-time.After(3 * time.Second):
				// unblock our own opener by opening the read end ourselves
				if r, err := os.OpenFile(fifo, os.O_RDONLY|syscall.O_NONBLOCK, 0); err == nil {
					<-opened
					r.Close()
				}
			}
		}
		select {
		case <-done:
		case <-time.After(5 * time.Second):
			if ok {
				ok, why = false, "server-hang: Serve did not return within 5 s of the end of the connection"
			}
		}
		if got := c11SettleFDs(base); ok && got != base {
			ok, why = false, fmt.Sprintf("fd-leak: %d descriptors are open after Serve returned, %d before the session (an OPEN was still in progress when the connection ended)", got, base)
		}
		c.Oracle(n, ok, why)
	}
}
