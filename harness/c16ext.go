package main

import (
	"fmt"
	"io"
	"os"

	"github.com/pkg/sftp"
)

// c16 kind extlisting: a request-server lister whose entries implement the optional FileInfoExtendedData interface; entry i
// carries i%3 extended attribute pairs (so every third entry carries none). The listing must be exact: every name, in
// order, with the size and the extended pairs the handler reported. Oracle only.
type extInfo struct {
	memInfo
	ext []sftp.StatExtended
}

func (e extInfo) Extended() []sftp.StatExtended { return e.ext }

type extLister struct{ ents []extInfo }

func (l extLister) ListAt(out []os.FileInfo, off int64) (int, error) {
	if off >= int64(len(l.ents)) {
		return 0, io.EOF
	}
	n := 0
	for n < len(out) && int(off)+n < len(l.ents) {
		out[n] = l.ents[int(off)+n]
		n++
	}
	return n, nil
}

type extHandlers struct {
	nullHandlers
	l extLister
}

func (h extHandlers) Filelist(r *sftp.Request) (sftp.ListerAt, error) {
	if r.Method == "List" {
		return h.l, nil
	}
	return oneLister{memInfo{"d", 0}}, nil
}

func c16ExtListings(c *Ctx) {
	sizes := []int{0, 1, 2, 3, 4, 7, 10}
	if c.Thorough() {
		sizes = []int{0, 1, 2, 3, 4, 5, 6, 7, 8, 9, 10, 23, 50}
	}
	for _, B := range []int{1, 3, 7} {
		sftp.MaxFilelist = int64(B)
		for _, size := range sizes {
			for phase := 0; phase < 3; phase++ {
				var ents []extInfo
				for i := 0; i < size; i++ {
					e := extInfo{memInfo: memInfo{fmt.Sprintf("x%d", i), int64(100 + i)}}
					for j := 0; j < (i+phase)%3; j++ {
						e.ext = append(e.ext, sftp.StatExtended{ExtType: fmt.Sprintf("user.k%d", j), ExtData: fmt.Sprintf("v%d-%d", i, j)})
					}
					ents = append(ents, e)
				}
				h := extHandlers{l: extLister{ents}}
				p, err := newPair(pairOpt{reqServer: true, handlers: sftp.Handlers{FileGet: h, FilePut: h, FileCmd: h, FileList: h}})
				if err != nil {
					c.Diag("pair: %v", err)
					continue
				}
				got, lerr := p.Client.ReadDir("/d")
				p.Close()
				n := c.Case("extlisting", kvi("n", size), kvi("b", B), kvi("phase", phase))
				if size > B {
					c.NT(n)
				}
				ok, why := true, ""
				switch {
				case lerr != nil:
					ok, why = false, "ReadDir of entries with extended attributes failed: "+lerr.Error()
				case len(got) != size:
					ok, why = false, fmt.Sprintf("directory of %d entries with extended attributes (batch %d) listed as %d entries", size, B, len(got))
				default:
					for i, fi := range got {
						st, _ := fi.Sys().(*sftp.FileStat)
						if fi.Name() != ents[i].name || fi.Size() != ents[i].size || st == nil || len(st.Extended) != len(ents[i].ext) {
							ok, why = false, fmt.Sprintf("entry %d is %q size %d with %d extended pairs, the handler reported %q size %d with %d", i, fi.Name(), fi.Size(), extLen(st), ents[i].name, ents[i].size, len(ents[i].ext))
							break
						}
						for j, x := range st.Extended {
							if x != ents[i].ext[j] {
								ok, why = false, fmt.Sprintf("entry %d extended pair %d is %q=%q", i, j, x.ExtType, x.ExtData)
							}
						}
					}
				}
				c.Oracle(n, ok, why)
				c.Stat("ext_listing")
			}
		}
	}
}

func extLen(st *sftp.FileStat) int {
	if st == nil {
		return -1
	}
	return len(st.Extended)
}
