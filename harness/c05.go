package main

// C05 — operations through Client and the os-backed Server behave like package os. Family: c05 (oracle-only).
//
// Twin trees A (served by a real sftp.Server, driven through a real sftp.Client over net.Pipe) and B (driven by
// package os / path/filepath / syscall directly). After every step: returned values, outcome category and a full
// recursive snapshot of both trees are compared. A sequence stops at its first failing step (the trees have
// diverged); the next sequence starts from freshly built trees.

import (
	"errors"
	"fmt"
	"hash/fnv"
	"os"
	"path"
	"path/filepath"
	"regexp"
	"sort"
	"strings"
	"syscall"
	"time"
)

func init() { register("c05", runC05) }

const c05T0 = 1000000000 // fixed "old" mtime base (2001); anything >= world.recent counts as "now"

type c05World struct {
	c      *Ctx
	base   string // temp dir; trees live in base/A/r and base/B/r, snapshots cover base/A and base/B
	rootA  string
	rootB  string
	cfg    string
	wd     bool // server working directory = rootA, client paths relative
	umask0 bool
	p      *pair
	recent int64
	before map[string]c05Ent // the twin tree before the step that is being judged (for classify)
}

type c05Op struct {
	name   string
	p1, p2 string // paths relative to the root ("" = the empty path)
	target string // symlink target text; "$R" stands for the root of the respective tree
	mode   os.FileMode
	size   int64
	flags  int
	at, mt int64
	data   []byte
}

type c05Res struct {
	err error
	cat string
	val string
}

func c05Cat(err error) string {
	switch {
	case err == nil:
		return "ok"
	case errors.Is(err, os.ErrNotExist):
		return "notexist"
	case errors.Is(err, os.ErrPermission):
		return "perm"
	}
	return "other"
}

// ---------------------------------------------------------------- trees

type c05Ent struct {
	typ    string // file dir symlink other
	perm   os.FileMode
	size   int64
	hash   string
	target string
	nlink  uint64
	mtime  int64
}

func c05Hash(b []byte) string {
	h := fnv.New64a()
	h.Write(b)
	return fmt.Sprintf("%016x", h.Sum64())
}

// snapshot of everything below side (base/A or base/B); root is that side's served root (for link-target normalisation).
func (w *c05World) snapshot(side, root string) map[string]c05Ent {
	m := map[string]c05Ent{}
	var rec func(dir, rel string)
	rec = func(dir, rel string) {
		ents, err := os.ReadDir(dir)
		if err != nil {
			return
		}
		for _, e := range ents {
			p := dir + "/" + e.Name()
			r := e.Name()
			if rel != "" {
				r = rel + "/" + e.Name()
			}
			fi, err := os.Lstat(p)
			if err != nil {
				continue
			}
			en := c05Ent{perm: fi.Mode() & (os.ModePerm | os.ModeSetuid | os.ModeSetgid | os.ModeSticky), mtime: fi.ModTime().Unix()}
			switch {
			case fi.Mode().IsRegular():
				en.typ = "file"
				en.size = fi.Size()
				b, _ := os.ReadFile(p)
				en.hash = c05Hash(b)
				if st, ok := fi.Sys().(*syscall.Stat_t); ok {
					en.nlink = uint64(st.Nlink)
				}
			case fi.IsDir():
				en.typ = "dir"
			case fi.Mode()&os.ModeSymlink != 0:
				en.typ = "symlink"
				t, _ := os.Readlink(p)
				en.target = c05AbsNorm(t, root)
				if st, ok := fi.Sys().(*syscall.Stat_t); ok {
					en.nlink = uint64(st.Nlink) // (os.Link on a link makes a second name of the link itself)
				}
			default:
				en.typ = "other"
			}
			m[r] = en
			if en.typ == "dir" {
				rec(p, r)
			}
		}
	}
	rec(side, "")
	return m
}

func (w *c05World) mt(t int64) string {
	if t >= w.recent {
		return "now"
	}
	return fmt.Sprintf("%d", t)
}

func (w *c05World) entStr(e c05Ent) string {
	switch e.typ {
	case "file":
		return fmt.Sprintf("file/%o/size=%d/%s/nlink=%d/mt=%s", uint32(c05Unix(e.perm)), e.size, e.hash, e.nlink, w.mt(e.mtime))
	case "symlink":
		return fmt.Sprintf("symlink->%q/mt=%s", e.target, w.mt(e.mtime))
	}
	return fmt.Sprintf("%s/%o/mt=%s", e.typ, uint32(c05Unix(e.perm)), w.mt(e.mtime))
}

func c05Unix(m os.FileMode) uint32 {
	u := uint32(m & os.ModePerm)
	if m&os.ModeSetuid != 0 {
		u |= 0o4000
	}
	if m&os.ModeSetgid != 0 {
		u |= 0o2000
	}
	if m&os.ModeSticky != 0 {
		u |= 0o1000
	}
	return u
}

// diffSnap returns a deterministic description of the first difference ("" if none) and the set of differing aspects.
func (w *c05World) diffSnap(a, b map[string]c05Ent) (string, map[string]bool) {
	keys := map[string]bool{}
	for k := range a {
		keys[k] = true
	}
	for k := range b {
		keys[k] = true
	}
	ks := make([]string, 0, len(keys))
	for k := range keys {
		ks = append(ks, k)
	}
	sort.Strings(ks)
	first := ""
	kinds := map[string]bool{}
	n := 0
	for _, k := range ks {
		ea, ina := a[k]
		eb, inb := b[k]
		d := ""
		switch {
		case !ina:
			d = fmt.Sprintf("%s: A=absent B=%s", k, w.entStr(eb))
			kinds["presence"] = true
		case !inb:
			d = fmt.Sprintf("%s: A=%s B=absent", k, w.entStr(ea))
			kinds["presence"] = true
		default:
			if ea.typ != eb.typ {
				kinds["type"] = true
			} else {
				if ea.perm != eb.perm {
					kinds["perm"] = true
				}
				if ea.size != eb.size || ea.hash != eb.hash {
					kinds["content"] = true
				}
				if ea.target != eb.target {
					kinds["target"] = true
				}
				if ea.nlink != eb.nlink {
					kinds["nlink"] = true
				}
				if w.mt(ea.mtime) != w.mt(eb.mtime) {
					kinds["mtime"] = true
				}
			}
			if sa, sb := w.entStr(ea), w.entStr(eb); sa != sb {
				d = fmt.Sprintf("%s: A=%s B=%s", k, sa, sb)
			}
		}
		if d != "" {
			n++
			if first == "" {
				first = d
			}
		}
	}
	if first != "" && n > 1 {
		first += fmt.Sprintf(" (+%d more)", n-1)
	}
	return first, kinds
}

func c05SnapKey(w *c05World, m map[string]c05Ent) string {
	ks := make([]string, 0, len(m))
	for k := range m {
		ks = append(ks, k)
	}
	sort.Strings(ks)
	var sb strings.Builder
	for _, k := range ks {
		e := m[k]
		fmt.Fprintf(&sb, "%s=%s/%d;", k, w.entStr(e), e.mtime)
	}
	return sb.String()
}

func c05Clear(dir string) {
	ents, _ := os.ReadDir(dir)
	for _, e := range ents {
		os.RemoveAll(dir + "/" + e.Name())
	}
}

type c05Node struct {
	rel    string
	kind   string // dir file symlink
	data   string
	perm   os.FileMode
	target string
}

func (w *c05World) layout() []c05Node {
	return c05Layout(w.c.Rng.Intn(6), w.c.Rng.Intn(4))
}

// c05Layout: the fixed part of the initial tree plus variant v1 of name d and variant v2 of the deep entries.
func c05Layout(v1, v2 int) []c05Node {
	ns := []c05Node{
		{"a", "dir", "", 0o755, ""},
		{"a/b", "dir", "", 0o755, ""},
		{"a/b/c", "file", "abc", 0o644, ""},
		{"a/b/a", "dir", "", 0o750, ""},
		{"a/d", "file", "hello", 0o600, ""},
		{"a/a", "symlink", "", 0, "../b"},
		{"a/c", "symlink", "", 0, "nowhere"},
		{"b", "file", "bee", 0o644, ""},
		{"c", "symlink", "", 0, "a/b"},
		{"s", "file", "sentinel", 0o644, ""},
	}
	switch v1 {
	case 1:
		ns = append(ns, c05Node{"d", "dir", "", 0o755, ""})
	case 2:
		ns = append(ns, c05Node{"d", "symlink", "", 0, "a/x"})
	case 3:
		ns = append(ns, c05Node{"d", "symlink", "", 0, "d"})
	case 4:
		ns = append(ns, c05Node{"d", "file", "", 0o640, ""})
	case 5:
		ns = append(ns, c05Node{"d", "symlink", "", 0, "$R/a"})
	}
	switch v2 {
	case 1:
		ns = append(ns, c05Node{"a/b/d", "file", "dd", 0o644, ""})
	case 2:
		ns = append(ns, c05Node{"a/b/d", "symlink", "", 0, "$R/b"})
	case 3:
		ns = append(ns, c05Node{"a/b/a/c", "file", "deep", 0o644, ""})
	}
	return ns
}

func (w *c05World) build(ns []c05Node) error {
	for _, side := range []string{w.base + "/A", w.base + "/B"} {
		root := side + "/r"
		ents, _ := os.ReadDir(side)
		for _, e := range ents {
			if e.Name() != "r" {
				os.RemoveAll(side + "/" + e.Name())
			}
		}
		os.Chmod(root, 0o755)
		c05Clear(root)
		for _, n := range ns {
			p := root + "/" + n.rel
			var err error
			switch n.kind {
			case "dir":
				if err = os.Mkdir(p, 0o755); err == nil {
					err = os.Chmod(p, n.perm)
				}
			case "file":
				if err = os.WriteFile(p, []byte(n.data), 0o644); err == nil {
					err = os.Chmod(p, n.perm)
				}
			case "symlink":
				err = os.Symlink(strings.Replace(n.target, "$R", root, 1), p)
			}
			if err != nil {
				return err
			}
		}
		for i := len(ns) - 1; i >= 0; i-- { // children before parents: setting a child's times does not touch the parent
			if ns[i].kind == "symlink" {
				continue
			}
			t := time.Unix(c05T0+int64(i)*10, 0)
			if err := os.Chtimes(root+"/"+ns[i].rel, t, t); err != nil {
				return err
			}
		}
		t := time.Unix(c05T0-100, 0)
		os.Chtimes(root, t, t)
		os.Chtimes(side, t, t)
	}
	return nil
}

// ---------------------------------------------------------------- paths

func (w *c05World) pa(rel string) string {
	if w.wd || rel == "" {
		return rel
	}
	return w.rootA + "/" + rel
}

func (w *c05World) pb(rel string) string {
	if rel == "" {
		return ""
	}
	return w.rootB + "/" + rel
}

// c05AbsNorm replaces a leading root by "$R" (texts that are absolute on both sides: link targets, RealPath).
func c05AbsNorm(s, root string) string {
	if strings.HasPrefix(s, root) {
		return "$R" + s[len(root):]
	}
	return s
}

// relNorm normalises a path derived from an argument (Glob / Walk results).
func (w *c05World) relNorm(s, root string) string {
	if w.wd && strings.HasPrefix(s, root+"/") {
		return s[len(root)+1:]
	}
	return c05AbsNorm(s, root)
}

var c05Names = []string{"a", "b", "c", "d"}

func (w *c05World) comp() string { return c05Names[w.c.Rng.Intn(len(c05Names))] }

func (w *c05World) plain() string {
	r := w.c.Rng
	d := 1
	switch x := r.Intn(100); {
	case x < 40:
		d = 1
	case x < 82:
		d = 2
	default:
		d = 3
	}
	parts := make([]string, d)
	for i := range parts {
		parts[i] = w.comp()
	}
	return strings.Join(parts, "/")
}

// genPath: mut = the path is the object of a modifying operation (never the root itself).
func (w *c05World) genPath(mut bool) string {
	r := w.c.Rng
	rel := w.plain()
	x := r.Intn(100)
	if w.wd && x >= 4 && x < 17 && r.Intn(3) != 0 {
		return rel // keep most wd sequences clear of the (known) lexical cleaning of relative paths
	}
	switch {
	case x < 4:
		return "./" + rel
	case x < 8:
		return rel + "/"
	case x < 11:
		return w.comp() + "/../" + rel
	case x < 13:
		return rel + "/."
	case x < 17:
		if mut {
			if !w.wd && x == 13 {
				return ""
			}
			return rel
		}
		switch x {
		case 13:
			return ""
		case 14:
			return "."
		case 15:
			return w.comp() + "/.."
		}
		return "./"
	}
	return rel
}

// sens: how a path is sensitive to lexical cleaning by the server's working-directory join.
func c05Sens(rel string) string {
	if rel == "" {
		return "empty"
	}
	for _, p := range strings.Split(rel, "/") {
		if p == ".." {
			return "dotdot"
		}
	}
	if strings.HasSuffix(rel, "/.") {
		return "trailing-dot"
	}
	if strings.HasSuffix(rel, "/") {
		return "trailing-slash"
	}
	return ""
}

var c05OpNames = []string{"mkdir", "mkdirall", "create", "openfile", "remove", "rmdir", "removeall", "rename", "posixrename",
	"link", "symlink", "readlink", "stat", "lstat", "chmod", "chtimes", "truncate", "readdir", "glob", "walk", "realpath", "statvfs"}

// c05OpBag: every operation three times, except the ones whose known divergences end most sequences they occur in.
var c05OpBag = func() []string {
	var bag []string
	for _, n := range c05OpNames {
		k := 3
		switch n {
		case "rmdir", "statvfs":
			k = 1
		case "removeall":
			k = 2
		}
		for i := 0; i < k; i++ {
			bag = append(bag, n)
		}
	}
	return bag
}()

var c05Modes = []os.FileMode{0o644, 0o600, 0o755, 0o700, 0o444, 0, 0o777, 0o755 | os.ModeSetuid, 0o775 | os.ModeSetgid, 0o777 | os.ModeSticky}
var c05Flags = []int{os.O_RDONLY, os.O_WRONLY | os.O_CREATE, os.O_RDWR | os.O_CREATE | os.O_EXCL, os.O_WRONLY | os.O_TRUNC,
	os.O_WRONLY | os.O_CREATE | os.O_TRUNC, os.O_RDWR, os.O_WRONLY, os.O_RDWR | os.O_CREATE,
	os.O_RDONLY | os.O_TRUNC, os.O_RDWR | os.O_TRUNC, os.O_RDONLY | os.O_CREATE, os.O_RDONLY | os.O_CREATE | os.O_TRUNC, os.O_WRONLY | os.O_APPEND} // (Linux truncates on O_RDONLY|O_TRUNC)
var c05GlobComps = []string{"a", "b", "c", "d", "*", "*", "?", "[ab]", "[b-d]", "a*", "\\a", "\\b", "\\*"}
var c05TargetsRel = []string{"a", "b", "a/b", "../b", "d", "nowhere", "", "c"}
var c05TargetsAbs = []string{"$R/a", "$R/b", "$R/a/b", "$R/d", "$R/a/d"}

func (w *c05World) genOp(step int) *c05Op {
	r := w.c.Rng
	op := &c05Op{name: c05OpBag[r.Intn(len(c05OpBag))]}
	switch op.name {
	case "mkdir", "mkdirall", "remove", "rmdir", "removeall":
		op.p1 = w.genPath(true)
	case "create":
		op.p1 = w.genPath(true)
		op.data = []byte{byte('0' + step%10), 'x', 'y'}
	case "openfile":
		op.p1 = w.genPath(true)
		op.flags = c05Flags[r.Intn(len(c05Flags))]
		op.data = []byte{byte('0' + step%10), 'o'}
	case "rename", "posixrename", "link":
		op.p1 = w.genPath(true)
		op.p2 = w.genPath(true)
	case "symlink":
		absP := 30
		if w.wd {
			absP = 75
		}
		if r.Intn(100) < absP {
			op.target = c05TargetsAbs[r.Intn(len(c05TargetsAbs))]
		} else {
			op.target = c05TargetsRel[r.Intn(len(c05TargetsRel))]
		}
		op.p2 = w.genPath(true)
	case "chmod":
		op.p1 = w.genPath(true)
		op.mode = c05Modes[r.Intn(len(c05Modes))]
	case "chtimes":
		op.p1 = w.genPath(true)
		op.at = c05T0 + 5000 + int64(r.Intn(50))*7
		op.mt = c05T0 + 9000 + int64(r.Intn(50))*3
	case "truncate":
		op.p1 = w.genPath(true)
		op.size = []int64{0, 3, 100, 1}[r.Intn(4)]
	case "glob":
		d := 1 + r.Intn(3)
		parts := make([]string, d)
		for i := range parts {
			parts[i] = c05GlobComps[r.Intn(len(c05GlobComps))]
		}
		op.p1 = strings.Join(parts, "/")
		switch r.Intn(25) {
		case 0:
			op.p1 = "./" + op.p1
		case 1:
			op.p1 += "/"
		case 2:
			op.p1 += "/["
		case 3:
			op.p1 = ""
		}
	default: // readlink stat lstat readdir walk realpath statvfs
		op.p1 = w.genPath(false)
		if op.name == "walk" && c05Sens(op.p1) == "dotdot" {
			// both walkers build child names with a cleaning Join, so below a root with ".." through a symlink both visit
			// lexically cleaned (wrong) names and differ only in how they notice: not a property of Client or Server
			op.p1 = w.plain()
		}
	}
	return op
}

func (op *c05Op) prePath() string {
	if op.name == "symlink" {
		return op.p2
	}
	return op.p1
}

type c05Dir struct {
	v1, v2 int
	ops    []*c05Op
}

// c05Directed: short fixed sequences run first in every configuration, so that every divergence seen so far (and the
// plain use of every operation) is exercised whatever the seed. Sequence numbers d000...
func c05Directed() []c05Dir {
	o1 := func(name, p1 string) *c05Op { return &c05Op{name: name, p1: p1} }
	o2 := func(name, p1, p2 string) *c05Op { return &c05Op{name: name, p1: p1, p2: p2} }
	sym := func(target, link string) *c05Op { return &c05Op{name: "symlink", target: target, p2: link} }
	return []c05Dir{
		{0, 0, []*c05Op{o1("mkdir", "d"), {name: "create", p1: "d/a", data: []byte("one")}, o2("rename", "d/a", "d/b"), o2("link", "d/b", "d/c"),
			o2("posixrename", "d/c", "d/a"), {name: "chmod", p1: "d/a", mode: 0o600}, {name: "chtimes", p1: "d/a", at: c05T0 + 7777, mt: c05T0 + 8888},
			{name: "truncate", p1: "d/b", size: 100}, sym("$R/a", "d/d"), o1("readlink", "d/d"), o1("stat", "d/d"), o1("lstat", "d/d"), o1("readdir", "d"),
			o1("glob", "d/*"), o1("walk", "d"), o1("realpath", "d/../d/a"), o1("mkdirall", "d/c/b/a"), {name: "openfile", p1: "d/c/b/a/c", flags: os.O_WRONLY | os.O_CREATE, data: []byte("of")},
			o1("remove", "d/d"), o1("rmdir", "d/c/b/a"), o1("removeall", "d"), o1("removeall", "d")}},
		{0, 0, []*c05Op{o2("link", "a", "d")}},
		{0, 0, []*c05Op{o1("removeall", "c")}},
		{0, 0, []*c05Op{o1("removeall", "a/c")}},
		{3, 0, []*c05Op{o1("removeall", "d")}},
		{0, 0, []*c05Op{o1("rmdir", "b")}},
		{0, 0, []*c05Op{o1("glob", "./a")}},
		{0, 0, []*c05Op{o1("glob", "a/")}},
		{0, 0, []*c05Op{o1("glob", "d/[")}},
		// a literal pattern names a match whenever lstat succeeds: a link that does not resolve (dangling, pointing at itself) IS one
		{0, 0, []*c05Op{sym("nowhere", "dl"), o1("glob", "dl"), o1("glob", "d*"), sym("sl", "sl"), o1("glob", "sl"), o1("glob", "./dl")}},
		// the backslash is a magic character too: patterns whose only magic is an escape
		{0, 0, []*c05Op{o1("glob", "\\a"), o1("glob", "a/\\b"), o1("glob", "\\a/b"), o1("glob", "\\a/*"), o1("glob", "a/\\*")}},
		{0, 0, []*c05Op{o1("glob", "a\\")}},
		{0, 0, []*c05Op{o1("glob", "a/b\\")}},
		{0, 0, []*c05Op{o1("glob", "a\\/*")}},
		{0, 0, []*c05Op{o1("removeall", "b/")}},
		{0, 0, []*c05Op{o1("removeall", "a/.")}},
		{0, 0, []*c05Op{o1("remove", "a/c/")}},
		{0, 0, []*c05Op{o1("stat", "a"), o1("statvfs", "a")}},
		{0, 0, []*c05Op{sym("c", "a/x"), o1("readlink", "a/x")}},
		{0, 0, []*c05Op{sym("", "d")}},
		{0, 0, []*c05Op{o1("lstat", "c/")}},
		{0, 0, []*c05Op{o1("stat", "")}},
		{0, 0, []*c05Op{o1("stat", "b/..")}},
		{0, 0, []*c05Op{o1("stat", "b/.")}},
		{0, 0, []*c05Op{o2("posixrename", "a", "./a")}},
		{0, 0, []*c05Op{{name: "create", p1: "d", data: []byte("new")}}},
	}
}

func c05Show(s string) string {
	if s == "" {
		return "-"
	}
	return s
}

func (op *c05Op) args() string {
	switch op.name {
	case "rename", "posixrename", "link":
		return c05Show(op.p1) + "," + c05Show(op.p2)
	case "symlink":
		return c05Show(op.target) + "," + c05Show(op.p2)
	case "openfile":
		return fmt.Sprintf("%s,flags=%x", c05Show(op.p1), op.flags)
	case "chmod":
		return fmt.Sprintf("%s,mode=%o", c05Show(op.p1), c05Unix(op.mode))
	case "chtimes":
		return fmt.Sprintf("%s,at=%d,mt=%d", c05Show(op.p1), op.at, op.mt)
	case "truncate":
		return fmt.Sprintf("%s,size=%d", c05Show(op.p1), op.size)
	}
	return c05Show(op.p1)
}

// ---------------------------------------------------------------- executing one step on both sides

func (w *c05World) fiStr(fi os.FileInfo) string {
	sz := "-"
	if !fi.IsDir() {
		sz = fmt.Sprintf("%d", fi.Size())
	}
	return fmt.Sprintf("%s|%v|%s|%s", fi.Name(), fi.Mode(), sz, w.mt(fi.ModTime().Unix()))
}

type c05File interface {
	Stat() (os.FileInfo, error)
	Write([]byte) (int, error)
	Close() error
}

func (w *c05World) useFile(f c05File, writable bool, data []byte) string {
	var sb strings.Builder
	if fi, err := f.Stat(); err != nil {
		fmt.Fprintf(&sb, "fstat=%s", c05Cat(err))
	} else {
		sz := "-"
		if !fi.IsDir() {
			sz = fmt.Sprintf("%d", fi.Size())
		}
		fmt.Fprintf(&sb, "fstat=%v|%s", fi.Mode(), sz)
	}
	if writable {
		n, err := f.Write(data)
		fmt.Fprintf(&sb, ";write=%d:%s", n, c05Cat(err))
	}
	fmt.Fprintf(&sb, ";close=%s", c05Cat(f.Close()))
	return sb.String()
}

func c05SortedJoin(items []string) string {
	sort.Strings(items)
	return strings.Join(items, " ")
}

func (w *c05World) exec(op *c05Op) (a, b c05Res, globA, globB []string) {
	cl := w.p.Client
	pa1, pb1 := w.pa(op.p1), w.pb(op.p1)
	pa2, pb2 := w.pa(op.p2), w.pb(op.p2)
	switch op.name {
	case "mkdir":
		a.err = cl.Mkdir(pa1)
		b.err = os.Mkdir(pb1, 0o755) // documented: Client.Mkdir has no permission argument; the server uses 0755
	case "mkdirall":
		a.err = cl.MkdirAll(pa1)
		b.err = os.MkdirAll(pb1, 0o755)
	case "create":
		fa, err := cl.Create(pa1)
		if a.err = err; err == nil {
			a.val = w.useFile(fa, true, op.data)
		}
		fb, err := os.Create(pb1)
		if b.err = err; err == nil {
			b.val = w.useFile(fb, true, op.data)
		}
	case "openfile":
		wr := op.flags&(os.O_WRONLY|os.O_RDWR) != 0
		fa, err := cl.OpenFile(pa1, op.flags)
		if a.err = err; err == nil {
			a.val = w.useFile(fa, wr, op.data)
		}
		fb, err := os.OpenFile(pb1, op.flags, 0o644) // Client.OpenFile has no permission argument; the server uses 0644
		if b.err = err; err == nil {
			b.val = w.useFile(fb, wr, op.data)
		}
	case "remove":
		a.err = cl.Remove(pa1)
		b.err = os.Remove(pb1)
	case "rmdir":
		a.err = cl.RemoveDirectory(pa1)
		if e := syscall.Rmdir(pb1); e != nil {
			b.err = &os.PathError{Op: "rmdir", Path: pb1, Err: e}
		}
	case "removeall":
		a.err = cl.RemoveAll(pa1)
		b.err = os.RemoveAll(pb1)
	case "rename":
		a.err = cl.Rename(pa1, pa2)
		b.err = os.Rename(pb1, pb2)
	case "posixrename":
		a.err = cl.PosixRename(pa1, pa2)
		b.err = os.Rename(pb1, pb2)
	case "link":
		a.err = cl.Link(pa1, pa2)
		b.err = os.Link(pb1, pb2)
	case "symlink":
		a.err = cl.Symlink(strings.Replace(op.target, "$R", w.rootA, 1), pa2)
		b.err = os.Symlink(strings.Replace(op.target, "$R", w.rootB, 1), pb2)
	case "readlink":
		s, err := cl.ReadLink(pa1)
		if a.err = err; err == nil {
			a.val = c05AbsNorm(s, w.rootA)
		}
		s, err = os.Readlink(pb1)
		if b.err = err; err == nil {
			b.val = c05AbsNorm(s, w.rootB)
		}
	case "stat":
		fi, err := cl.Stat(pa1)
		if a.err = err; err == nil {
			a.val = w.fiStr(fi)
		}
		fi, err = os.Stat(pb1)
		if b.err = err; err == nil {
			b.val = w.fiStr(fi)
		}
	case "lstat":
		fi, err := cl.Lstat(pa1)
		if a.err = err; err == nil {
			a.val = w.fiStr(fi)
		}
		fi, err = os.Lstat(pb1)
		if b.err = err; err == nil {
			b.val = w.fiStr(fi)
		}
	case "chmod":
		a.err = cl.Chmod(pa1, op.mode)
		b.err = os.Chmod(pb1, op.mode)
	case "chtimes":
		a.err = cl.Chtimes(pa1, time.Unix(op.at, 0), time.Unix(op.mt, 0))
		b.err = os.Chtimes(pb1, time.Unix(op.at, 0), time.Unix(op.mt, 0))
		if a.err == nil && b.err == nil { // access time is not part of the snapshots (reading moves it): look at it right now
			fa, ea := os.Stat(w.rootA + "/" + op.p1)
			fb, eb := os.Stat(pb1)
			if ea == nil && eb == nil {
				a.val = fmt.Sprintf("atime=%d", fa.Sys().(*syscall.Stat_t).Atim.Sec)
				b.val = fmt.Sprintf("atime=%d", fb.Sys().(*syscall.Stat_t).Atim.Sec)
			}
		}
	case "truncate":
		a.err = cl.Truncate(pa1, op.size)
		b.err = os.Truncate(pb1, op.size)
	case "readdir":
		la, err := cl.ReadDir(pa1)
		if a.err = err; err == nil {
			var it []string
			for _, fi := range la {
				it = append(it, w.fiStr(fi))
			}
			a.val = c05SortedJoin(it)
		}
		lb, err := os.ReadDir(pb1)
		if b.err = err; err == nil {
			var it []string
			for _, e := range lb {
				fi, err := e.Info()
				if err != nil {
					it = append(it, e.Name()+"|!"+c05Cat(err))
					continue
				}
				it = append(it, w.fiStr(fi))
			}
			b.val = c05SortedJoin(it)
		}
	case "glob":
		ma, err := cl.Glob(pa1)
		if a.err = err; err == nil {
			for _, s := range ma {
				globA = append(globA, w.relNorm(s, w.rootA))
			}
			a.val = c05SortedJoin(globA)
		}
		mb, err := filepath.Glob(pb1)
		if b.err = err; err == nil {
			for _, s := range mb {
				globB = append(globB, w.relNorm(s, w.rootB))
			}
			b.val = c05SortedJoin(globB)
		}
	case "walk":
		var ia, ib []string
		wk := cl.Walk(pa1)
		for n := 0; n < 5000 && wk.Step(); n++ {
			pth := w.relNorm(wk.Path(), w.rootA)
			if err := wk.Err(); err != nil {
				if n == 0 {
					a.err = err
				}
				ia = append(ia, pth+"!"+c05Cat(err))
			} else {
				ia = append(ia, pth+":"+wk.Stat().Mode().Type().String())
			}
		}
		a.val = c05SortedJoin(ia)
		n := 0
		filepath.Walk(pb1, func(pth string, info os.FileInfo, err error) error {
			pth = w.relNorm(pth, w.rootB)
			if err != nil {
				if n == 0 {
					b.err = err
				}
				ib = append(ib, pth+"!"+c05Cat(err))
			} else {
				ib = append(ib, pth+":"+info.Mode().Type().String())
			}
			n++
			return nil
		})
		b.val = c05SortedJoin(ib)
	case "realpath":
		s, err := cl.RealPath(pa1)
		if a.err = err; err == nil {
			a.val = c05AbsNorm(s, w.rootA)
		}
		s, err = filepath.Abs(pb1)
		if b.err = err; err == nil {
			b.val = c05AbsNorm(filepath.Clean(s), w.rootB)
		}
	case "statvfs":
		v, err := cl.StatVFS(pa1)
		if a.err = err; err == nil {
			a.val = fmt.Sprintf("namemax=%d,bsize=%d", v.Namemax, v.Bsize)
		}
		var st syscall.Statfs_t
		if e := syscall.Statfs(pb1, &st); e != nil {
			b.err = &os.PathError{Op: "statfs", Path: pb1, Err: e}
		} else {
			b.val = fmt.Sprintf("namemax=%d,bsize=%d", uint64(st.Namelen), uint64(st.Bsize))
		}
	}
	a.cat, b.cat = c05Cat(a.err), c05Cat(b.err)
	return
}

func c05PreType(p string) string {
	fi, err := os.Lstat(p)
	switch {
	case err != nil && errors.Is(err, os.ErrNotExist):
		return "none"
	case err != nil:
		return "err"
	case fi.Mode()&os.ModeSymlink != 0:
		return "symlink"
	case fi.IsDir():
		return "dir"
	case fi.Mode().IsRegular():
		return "file"
	}
	return "other"
}

func (w *c05World) clean(s string) string {
	for _, r := range []struct{ from, to string }{{w.rootA, "$R"}, {w.rootB, "$R"}, {w.base, "$T"}} {
		s = strings.ReplaceAll(s, r.from, r.to)
	}
	return s
}

func c05Trunc(s string) string {
	if len(s) > 240 {
		return s[:240] + "..."
	}
	return s
}

func c05ErrText(err error) string {
	if err == nil {
		return ""
	}
	return "(" + err.Error() + ")"
}

// classify picks the stable reason prefix for a failing step. kind: "category" | "value" | "tree".
func (w *c05World) classify(op *c05Op, a, b c05Res, pre1 string, kind string, kinds map[string]bool, globA, globB []string) string {
	sens := ""
	if w.wd {
		var ps []string
		switch op.name {
		case "rename", "posixrename", "link":
			ps = []string{op.p1, op.p2}
		case "symlink":
			ps = []string{op.p2}
		default:
			ps = []string{op.p1}
		}
		for _, p := range ps {
			if s := c05Sens(p); s != "" {
				sens = s
				break
			}
		}
	}
	onlyTarget := kind == "tree" && len(kinds) > 0
	sameName := w.wd && (op.name == "rename" || op.name == "posixrename") && op.p1 != op.p2 && path.Clean(op.p1) == path.Clean(op.p2)
	for k := range kinds {
		if k != "target" {
			onlyTarget = false
		}
	}
	onlyPerm := kind != "category" && len(kinds) > 0
	for k := range kinds {
		if k != "perm" {
			onlyPerm = false
		}
	}
	switch {
	// (a path that the server's working-directory join cleans lexically - "", "x/.", "x/", "x/../y" - is the known finding
	// F24 whatever the operation; only paths that are not sensitive to that cleaning can show the two repaired defects below)
	case kind == "category" && b.cat == "perm" && a.cat == "other" && sens == "":
		return "perm-category"
	case op.name == "statvfs" && w.wd && sens == "":
		return "statvfs-workdir"
	case op.name == "removeall" && pre1 == "symlink":
		return "removeall-symlink"
	case op.name == "removeall" && pre1 == "dir" && kind == "category" && a.cat == "notexist" && b.cat == "ok" && c05ThroughOwnLink(w.before, op.p1):
		// F30: the directory is reached through a symbolic link that lies INSIDE it; the Client removes by path, the link goes, and
		// the rest of the paths no longer resolve (os.RemoveAll works on directory descriptors)
		return "removeall-own-link"
	case op.name == "symlink" && w.wd && !strings.HasPrefix(op.target, "$R") && (onlyTarget || (kind == "category" && op.target == "" && sens == "")):
		return "symlink-target-workdir"
	case op.name == "rmdir" && (pre1 == "file" || pre1 == "symlink") && sens == "":
		return "rmdir-nondir"
	case op.name == "glob" && kind == "value":
		ca := make([]string, len(globA))
		cb := make([]string, len(globB))
		for i, s := range globA {
			ca[i] = path.Clean(s)
		}
		for i, s := range globB {
			cb[i] = path.Clean(s)
		}
		if c05SortedJoin(ca) == c05SortedJoin(cb) {
			return "glob-clean"
		}
		if strings.HasSuffix(op.p1, "/") && !strings.ContainsAny(op.p1, "*?[") {
			return "glob-trailing-slash"
		}
		if sens != "" {
			return "workdir-clean:" + sens
		}
		return "glob-value"
	case op.name == "glob" && kind == "category" && sens == "":
		return "glob-badpattern"
	case sens != "":
		return "workdir-clean:" + sens
	case sameName && kind == "category":
		// os.Rename refuses (EEXIST) a directory renamed onto its textually identical name, but not onto another spelling of it
		return "workdir-clean:same-name"
	case op.name == "remove" && kind == "category" && a.cat != "ok" && b.cat != "ok" && len(kinds) == 0:
		return "remove-error-choice"
	case op.name == "removeall" && strings.HasSuffix(op.p1, "/") && pre1 == "file":
		return "removeall-trailing-slash"
	case op.name == "removeall" && (op.p1 == "." || strings.HasSuffix(op.p1, "/.")):
		return "removeall-dot"
	case op.name == "create" && onlyPerm:
		return "create-mode"
	}
	return kind
}

// c05ThroughOwnLink: resolving rel on the snapshot passes through a symbolic link that is located inside the directory the
// path finally names.
func c05ThroughOwnLink(snap map[string]c05Ent, rel string) bool {
	if snap == nil {
		return false
	}
	cur := []string{"r"}
	var links []string
	todo := strings.Split(path.Clean(rel), "/")
	for steps := 0; len(todo) > 0 && steps < 200; steps++ {
		c := todo[0]
		todo = todo[1:]
		switch c {
		case "", ".":
			continue
		case "..":
			if len(cur) > 1 {
				cur = cur[:len(cur)-1]
			}
			continue
		}
		key := strings.Join(append(append([]string{}, cur...), c), "/")
		e, ok := snap[key]
		if !ok {
			return false
		}
		if e.typ == "symlink" {
			links = append(links, key)
			t := e.target
			if strings.HasPrefix(t, "$R") {
				cur = []string{"r"}
				t = strings.TrimPrefix(t, "$R")
			} else if strings.HasPrefix(t, "/") {
				return false // leaves the tree
			}
			todo = append(strings.Split(t, "/"), todo...)
			continue
		}
		cur = append(cur, c)
	}
	final := strings.Join(cur, "/")
	for _, l := range links {
		if strings.HasPrefix(l, final+"/") {
			return true
		}
	}
	return false
}

// ---------------------------------------------------------------- driver

func runC05(c *Ctx) {
	c.Rule("random sequences (12 steps quick / 25 thorough) of Mkdir MkdirAll Create OpenFile Remove RemoveDirectory RemoveAll Rename PosixRename Link Symlink " +
		"ReadLink Stat Lstat Chmod Chtimes Truncate ReadDir Glob Walk RealPath StatVFS over names a b c d (depth<=3, decorated with ./ x/.. trailing / and the empty path) " +
		"applied through Client+os-backed Server to tree A and through os/filepath/syscall to an identical tree B; cfg abs = absolute paths, wd = server working directory + relative paths, " +
		"abs-umask0 = abs with umask 0; compared after every step: outcome category, returned values, full tree snapshots; a sequence ends at its first failing step; " +
		"each configuration starts with a few fixed directed sequences (seq d000..) that exercise every operation and every divergence seen so far; " +
		"non-trivial = the step fails on at least one side or changes a tree")
	oldMask := syscall.Umask(0o022)
	defer syscall.Umask(oldMask)
	base, err := os.MkdirTemp("", "vh-c05-")
	if err != nil {
		c.Diag("mktemp: %v", err)
		return
	}
	defer os.RemoveAll(base)
	if r, err := filepath.EvalSymlinks(base); err == nil {
		base = r
	}
	// statvfs ignores the server working directory, so in cfg wd its relative argument is resolved against the process
	// working directory: make that a place where none of the names exists, whatever directory the harness is started in
	if cwd, err := os.Getwd(); err == nil && os.Chdir(base) == nil {
		defer os.Chdir(cwd)
	}
	nseq, nsteps := 150, 12
	if c.Thorough() {
		nseq, nsteps = 3000, 25
	}
	c.Diag("c05 uid=%d", os.Getuid())
	prefixes := map[string]int{}
	examples := map[string]string{}
	for _, cfg := range []struct {
		name   string
		wd     bool
		umask0 bool
		n      int
	}{{"abs", false, false, nseq}, {"wd", true, false, nseq}, {"abs-umask0", false, true, nseq / 15}} {
		w := &c05World{c: c, base: base, rootA: base + "/A/r", rootB: base + "/B/r", cfg: cfg.name, wd: cfg.wd, umask0: cfg.umask0,
			recent: c.Start.Unix() - 3600}
		if err := os.MkdirAll(w.rootA, 0o755); err != nil {
			c.Diag("mkdir: %v", err)
			return
		}
		if err := os.MkdirAll(w.rootB, 0o755); err != nil {
			c.Diag("mkdir: %v", err)
			return
		}
		if cfg.umask0 {
			syscall.Umask(0)
		} else {
			syscall.Umask(0o022)
		}
		if !w.run(cfg.n, nsteps, prefixes, examples) {
			break
		}
	}
	syscall.Umask(0o022)
	c05BigDirs(c, base)
	ks := make([]string, 0, len(prefixes))
	for k := range prefixes {
		ks = append(ks, k)
	}
	sort.Strings(ks)
	for _, k := range ks {
		c.Diag("c05 failures %s %d e.g. %s", k, prefixes[k], examples[k])
	}
}

func (w *c05World) open() error {
	o := pairOpt{}
	if w.wd {
		o.workDir = w.rootA
	}
	p, err := newPair(o)
	if err != nil {
		return err
	}
	w.p = p
	return nil
}

// run returns false when the family must stop (hang or broken set-up).
func (w *c05World) run(nseq, nsteps int, prefixes map[string]int, examples map[string]string) bool {
	c := w.c
	if err := w.open(); err != nil {
		c.Diag("pair: %v", err)
		return false
	}
	defer func() { w.p.Close() }()
	for di, d := range c05Directed() {
		if !w.runSeq(0xd000+di, c05Layout(d.v1, d.v2), len(d.ops), func(i int) *c05Op { return d.ops[i] }, prefixes, examples) {
			return false
		}
	}
	for s := 0; s < nseq; s++ {
		if !w.runSeq(s, w.layout(), nsteps, w.genOp, prefixes, examples) {
			return false
		}
	}
	return true
}

// runSeq runs one sequence from freshly built twin trees; it returns false when the family must stop.
func (w *c05World) runSeq(s int, nodes []c05Node, nsteps int, next func(int) *c05Op, prefixes map[string]int, examples map[string]string) bool {
	c := w.c
	{
		if err := w.build(nodes); err != nil {
			c.Diag("build: %v", w.clean(err.Error()))
			return false
		}
		prevA := w.snapshot(w.base+"/A", w.rootA)
		prevB := w.snapshot(w.base+"/B", w.rootB)
		if d, _ := w.diffSnap(prevA, prevB); d != "" {
			c.Diag("initial trees differ: %s", d)
			return false
		}
		keyA, keyB := c05SnapKey(w, prevA), c05SnapKey(w, prevB)
		for i := 0; i < nsteps; i++ {
			op := next(i)
			beforeA, beforeB := prevA, prevB
			w.before = beforeB
			pre1 := "none"
			if pp := op.prePath(); pp != "" {
				t := strings.TrimRight(pp, "/")
				if t == "" {
					t = pp
				}
				pre1 = c05PreType(w.pb(t))
			}
			var a, b c05Res
			var ga, gb []string
			done := make(chan struct{})
			go func() {
				defer close(done)
				a, b, ga, gb = w.exec(op)
			}()
			n := c.Case("osdiff", kvs("cfg", w.cfg), kvi("seq", s), kvi("step", i), kvs("op", op.name), kvs("args", op.args()))
			select {
			case <-done:
			case <-time.After(30 * time.Second):
				c.Oracle(n, false, fmt.Sprintf("hang: op=%s args=%s did not return within 30s", op.name, op.args()))
				c.NT(n)
				return false
			}
			c.Stat("op_" + op.name)
			c.Stat("cfg_" + w.cfg)
			c.Stat("outcome_A_" + a.cat)
			c.Stat("outcome_B_" + b.cat)
			snapA := w.snapshot(w.base+"/A", w.rootA)
			snapB := w.snapshot(w.base+"/B", w.rootB)
			nkA, nkB := c05SnapKey(w, snapA), c05SnapKey(w, snapB)
			prevA, prevB = snapA, snapB
			// the name-space model (coq/Fs/Tree.v): what the Client did to tree A against the model of its composite operations
			// (kind fsop), what package os did to tree B against the model's specifications (kind fsspec)
			if c05ModelOp(op) {
				w.emitFs("fsop", s, i, op, beforeA, snapA, a.cat)
				w.emitFs("fsspec", s, i, op, beforeB, snapB, b.cat)
			}
			// the model's observers - the kernel's path walk (lstat / stat) and the children of a directory - against what Lstat,
			// Stat and ReadDir reported, on both sides
			if op.name == "glob" && c05CleanGlob(op.p1) {
				w.emitFsGlob("fsop", s, i, op, beforeA, a.cat, ga)
				w.emitFsGlob("fsspec", s, i, op, beforeB, b.cat, gb)
			}
			if (op.name == "stat" || op.name == "lstat" || op.name == "readdir" || op.name == "walk" || op.name == "readlink") && c05PlainPath.MatchString(op.p1) {
				w.emitFsObs("fsop", s, i, op, beforeA, a.cat, a.val)
				w.emitFsObs("fsspec", s, i, op, beforeB, b.cat, b.val)
			}
			changed := nkA != keyA || nkB != keyB
			if changed {
				c.Stat("tree_changed")
			}
			if a.cat != "ok" || b.cat != "ok" || changed {
				c.NT(n)
			}
			keyA, keyB = nkA, nkB

			kind, detail := "", ""
			var kinds map[string]bool
			catOK := a.cat == b.cat
			if !catOK && op.name == "removeall" && a.cat == "notexist" && b.cat == "ok" && (pre1 == "none" || pre1 == "err") {
				// documented: Client.RemoveAll returns an error if no file or directory with the specified path exists
				catOK = true
				c.Stat("documented_removeall_missing")
			}
			if !catOK && op.name == "statvfs" && w.wd && a.cat != "ok" && b.cat != "ok" {
				catOK = true // statvfs: only ok / failed is compared (the failing side names a path outside the served tree)
			}
			switch {
			case !catOK:
				kind = "category"
			case a.val != b.val:
				kind = "value"
			}
			treeDiff, tk := w.diffSnap(snapA, snapB)
			kinds = tk
			if kind == "" && treeDiff != "" {
				kind = "tree"
			}
			if kind == "" {
				c.Oracle(n, true, "")
				continue
			}
			switch kind {
			case "category":
				detail = fmt.Sprintf("A=%s%s B=%s%s", a.cat, c05ErrText(a.err), b.cat, c05ErrText(b.err))
				if treeDiff != "" {
					detail += " tree: " + treeDiff
				}
			case "value":
				detail = fmt.Sprintf("A=%s[%s] B=%s[%s]", a.cat, c05Trunc(a.val), b.cat, c05Trunc(b.val))
				if treeDiff != "" {
					detail += " tree: " + treeDiff
				}
			case "tree":
				detail = fmt.Sprintf("A=%s B=%s tree: %s", a.cat, b.cat, treeDiff)
			}
			prefix := w.classify(op, a, b, pre1, kind, kinds, ga, gb)
			reason := w.clean(fmt.Sprintf("%s: cfg=%s op=%s args=%s pre=%s %s", prefix, w.cfg, op.name, op.args(), pre1, detail))
			c.Oracle(n, false, reason)
			c.Stat("fail_" + strings.ReplaceAll(prefix, ":", "_"))
			prefixes[prefix]++
			if _, ok := examples[prefix]; !ok {
				examples[prefix] = reason
			}
			break // trees have diverged: next sequence starts from fresh trees
		}
	}
	return true
}

// ---------------------------------------------------------------- the tie to coq/Fs/Tree.v

var c05PlainPath = regexp.MustCompile(`^[a-d](/[a-d])*$`)

// c05ModelOp: the operations the name-space model covers, on paths made of plain components
func c05ModelOp(op *c05Op) bool {
	switch op.name {
	case "mkdir", "mkdirall", "remove", "rmdir", "removeall":
		return c05PlainPath.MatchString(op.p1)
	case "create", "openfile":
		return c05PlainPath.MatchString(op.p1)
	case "rename", "posixrename", "link":
		return c05PlainPath.MatchString(op.p1) && c05PlainPath.MatchString(op.p2)
	case "symlink":
		return c05PlainPath.MatchString(op.p2)
	}
	return false
}

// c05TreeStr: the served tree (everything below r/) as the model sees it: path:kind entries, sorted
func c05TreeStr(snap map[string]c05Ent) string {
	var ents []string
	for k, e := range snap {
		if !strings.HasPrefix(k, "r/") {
			continue
		}
		t := "f"
		switch e.typ {
		case "dir":
			t = "d"
		case "symlink":
			t = "l"
		}
		ents = append(ents, k[2:]+":"+t)
	}
	if len(ents) == 0 {
		return "-"
	}
	sort.Strings(ents)
	return strings.Join(ents, ";")
}

func (w *c05World) emitFs(kind string, seq, step int, op *c05Op, before, after map[string]c05Ent, cat string) {
	c := w.c
	p1, p2 := op.p1, op.p2
	if op.name == "symlink" {
		p1, p2 = op.p2, "-" // the link's own path; the target text is not in the model
	}
	if p2 == "" {
		p2 = "-"
	}
	if op.name == "rename" || op.name == "posixrename" {
		// two names of one file (hard links): rename(2) does nothing and reports success; the model has no file identity
		if a, ok := before["r/"+op.p1]; ok && a.typ != "dir" && a.nlink >= 2 {
			if b, ok := before["r/"+op.p2]; ok && b.typ == a.typ && b.nlink >= 2 && op.p1 != op.p2 {
				c.Stat(kind + "_rename_between_possible_hard_links_not_compared")
				return
			}
		}
	}
	tgt := "text"
	if op.name == "symlink" && op.target == "" && !(kind == "fsop" && w.cfg == "wd") {
		// (a server with a working directory resolves the target text against it - known finding F14 - so that os.Symlink gets
		// a non-empty text there)
		tgt = "empty"
	}
	flags := op.flags
	if op.name == "create" {
		flags = os.O_RDWR | os.O_CREATE | os.O_TRUNC
	}
	n := c.Case(kind, kvs("cfg", w.cfg), kvi("seq", seq), kvi("step", step), kvs("op", op.name), kvs("path", p1), kvs("path2", p2), kvs("target", tgt), kvi("flags", flags), kvs("tree", c05TreeStr(before)))
	if cat == "perm" {
		// permissions are not in the model; such a step is recorded but not compared (its expectation would be wrong by design)
		c.Stat(kind + "_permission_outcomes_not_compared")
		c.Oracle(n, true, "")
		return
	}
	c.Obs(n, "res="+cat, "tree="+c05TreeStr(after))
	c.Oracle(n, true, "")
	if strings.Contains(p1, "/") {
		c.NT(n)
	}
	c.Stat(kind + "_" + op.name)
}

// c05CleanGlob: a pattern made of the generator's components only, joined by single slashes (no "./", no trailing slash, no
// broken class): what the Glob model speaks of
func c05CleanGlob(p string) bool {
	if p == "" {
		return false
	}
	for _, c := range strings.Split(p, "/") {
		ok := false
		for _, g := range c05GlobComps {
			if c == g {
				ok = true
			}
		}
		if !ok {
			return false
		}
	}
	return true
}

// emitFsGlob: a Glob step for the model. What path.Match says about each component and each name of the tree is computed here
// with package path and handed over: the model takes Match as given.
func (w *c05World) emitFsGlob(kind string, seq, step int, op *c05Op, before map[string]c05Ent, cat string, got []string) {
	c := w.c
	universe := map[string]bool{"a": true, "b": true, "c": true, "d": true}
	for k := range before {
		if strings.HasPrefix(k, "r/") {
			for _, n := range strings.Split(k[2:], "/") {
				universe[n] = true
			}
		}
	}
	var names []string
	for n := range universe {
		names = append(names, n)
	}
	sort.Strings(names)
	var comps []string
	for _, cp := range strings.Split(op.p1, "/") {
		meta := "0"
		if strings.ContainsAny(cp, "\\*?[") {
			meta = "1"
		}
		var ms []string
		for _, n := range names {
			if ok, err := path.Match(cp, n); err == nil && ok {
				ms = append(ms, n)
			}
		}
		all := "0"
		if cp == "*" {
			all = "1" // (and every name of the universe is listed as well)
		}
		l := strings.Join(ms, ",")
		if l == "" {
			l = "-"
		}
		comps = append(comps, meta+":"+all+":"+l)
	}
	n := c.Case(kind, kvs("cfg", w.cfg), kvi("seq", seq), kvi("step", step), kvs("op", "glob"), kvs("path", "-"), kvs("path2", "-"), kvs("target", "text"),
		kvs("pat", strings.Join(comps, "/")), kvs("tree", c05TreeStr(before)))
	if cat != "ok" {
		c.Oracle(n, true, "")
		return
	}
	var ents []string
	for _, g := range got {
		ents = append(ents, strings.TrimPrefix(g, "$R/"))
	}
	sort.Strings(ents)
	e := strings.Join(ents, ";")
	if e == "" {
		e = "-"
	}
	c.Obs(n, "res=ok", "ents="+e)
	c.Oracle(n, true, "")
	c.NT(n)
	c.Stat(kind + "_glob")
}

// c05KindOf: the kind letter of a fiStr item "name|mode|size|mtime"
func c05KindOf(item string) (name, kind string) {
	f := strings.Split(item, "|")
	if len(f) < 2 || len(f[1]) == 0 {
		return item, "?"
	}
	// os.FileMode.String(): type and special-bit letters (d L D p S c t u g ...) in front of nine permission characters
	pre := f[1]
	if len(pre) >= 9 {
		pre = pre[:len(pre)-9]
	}
	switch {
	case strings.ContainsAny(pre, "DpSc?"):
		return f[0], "?"
	case strings.Contains(pre, "d"):
		return f[0], "d"
	case strings.Contains(pre, "L"):
		return f[0], "l"
	default:
		return f[0], "f"
	}
}

func (w *c05World) emitFsObs(kind string, seq, step int, op *c05Op, before map[string]c05Ent, cat, val string) {
	c := w.c
	n := c.Case(kind, kvs("cfg", w.cfg), kvi("seq", seq), kvi("step", step), kvs("op", op.name), kvs("path", op.p1), kvs("path2", "-"), kvs("target", "text"), kvs("tree", c05TreeStr(before)))
	if cat == "perm" {
		c.Stat(kind + "_permission_outcomes_not_compared")
		c.Oracle(n, true, "")
		return
	}
	obs := "res=" + cat
	if cat == "ok" && op.name == "walk" {
		// every visited path with its kind, as a set (the order of a walk is the directory order of the file system on the served
		// side and lexical on package os's side). A visit that reported an error cannot be compared.
		var ents []string
		for _, it := range strings.Fields(val) {
			if strings.Contains(it, "!") {
				c.Stat(kind + "_walk_with_errors_not_compared")
				c.Oracle(n, true, "")
				return
			}
			i := strings.LastIndex(it, ":")
			if i < 0 || i+1 >= len(it) {
				continue
			}
			pth, k := strings.TrimPrefix(it[:i], "$R/"), "f"
			switch it[i+1] {
			case 'd':
				k = "d"
			case 'L':
				k = "l"
			}
			ents = append(ents, pth+":"+k)
		}
		sort.Strings(ents)
		obs += " ents=" + strings.Join(ents, ";")
	} else if cat == "ok" && op.name != "readlink" {
		if op.name == "readdir" {
			var ents []string
			if val != "" {
				for _, it := range strings.Fields(val) {
					nm, k := c05KindOf(it)
					ents = append(ents, nm+":"+k)
				}
			}
			sort.Strings(ents)
			e := strings.Join(ents, ";")
			if e == "" {
				e = "-"
			}
			obs += " ents=" + e
		} else {
			_, k := c05KindOf(val)
			obs += " kind=" + k
		}
	}
	c.Obs(n, strings.Fields(obs)...)
	c.Oracle(n, true, "")
	if strings.Contains(op.p1, "/") {
		c.NT(n)
	}
	c.Stat(kind + "_" + op.name)
}

// c05BigDirs (kind bigdir): the name universe of the sequences is small on purpose; here the directories are big and the names
// long. Twin directories of n entries whose names have the given length: ReadDir, Glob with a wildcard, Walk and RemoveAll
// through the Client against os.ReadDir, filepath.Glob, filepath.WalkDir and os.RemoveAll on the twin.
func c05BigDirs(c *Ctx, base string) {
	for _, sh := range []struct{ n, nameLen int }{{300, 8}, {450, 255}, {1100, 120}, {2300, 60}} {
		rootA, rootB := filepath.Join(base, "bigA"), filepath.Join(base, "bigB")
		os.RemoveAll(rootA)
		os.RemoveAll(rootB)
		var names []string
		for i := 0; i < sh.n; i++ {
			nm := fmt.Sprintf("e%04d", i)
			nm += strings.Repeat("x", sh.nameLen-len(nm))
			names = append(names, nm)
		}
		for _, r := range []string{rootA, rootB} {
			os.MkdirAll(filepath.Join(r, "d"), 0o755)
			for i, nm := range names {
				if i%97 == 5 {
					os.Mkdir(filepath.Join(r, "d", nm), 0o755)
				} else {
					os.WriteFile(filepath.Join(r, "d", nm), []byte{byte(i)}, 0o644)
				}
			}
		}
		p, err := newPair(pairOpt{})
		if err != nil {
			c.Diag("bigdir pair: %v", err)
			return
		}
		type res struct {
			cat string
			val string
		}
		run := func(op string) (a, b res) {
			switch op {
			case "readdir":
				la, ea := p.Client.ReadDir(filepath.Join(rootA, "d"))
				lb, eb := os.ReadDir(filepath.Join(rootB, "d"))
				var na, nb []string
				for _, fi := range la {
					na = append(na, fi.Name())
				}
				for _, de := range lb {
					nb = append(nb, de.Name())
				}
				return res{c05Cat(ea), c05SortedJoin(na)}, res{c05Cat(eb), c05SortedJoin(nb)}
			case "glob":
				ga, ea := p.Client.Glob(filepath.Join(rootA, "d", "e*5*"))
				gb, eb := filepath.Glob(filepath.Join(rootB, "d", "e*5*"))
				var na, nb []string
				for _, s := range ga {
					na = append(na, filepath.Base(s))
				}
				for _, s := range gb {
					nb = append(nb, filepath.Base(s))
				}
				return res{c05Cat(ea), c05SortedJoin(na)}, res{c05Cat(eb), c05SortedJoin(nb)}
			case "walk":
				var na, nb []string
				var ea error
				wk := p.Client.Walk(filepath.Join(rootA, "d"))
				for n := 0; n < 10000 && wk.Step(); n++ {
					if err := wk.Err(); err != nil {
						if ea == nil {
							ea = err
						}
						continue
					}
					na = append(na, filepath.Base(wk.Path()))
				}
				eb := filepath.WalkDir(filepath.Join(rootB, "d"), func(pth string, d os.DirEntry, err error) error {
					if err != nil {
						return err
					}
					nb = append(nb, filepath.Base(pth))
					return nil
				})
				return res{c05Cat(ea), c05SortedJoin(na)}, res{c05Cat(eb), c05SortedJoin(nb)}
			default: // removeall
				ea := p.Client.RemoveAll(filepath.Join(rootA, "d"))
				eb := os.RemoveAll(filepath.Join(rootB, "d"))
				_, sa := os.Lstat(filepath.Join(rootA, "d"))
				_, sb := os.Lstat(filepath.Join(rootB, "d"))
				return res{c05Cat(ea), fmt.Sprint("gone=", os.IsNotExist(sa))}, res{c05Cat(eb), fmt.Sprint("gone=", os.IsNotExist(sb))}
			}
		}
		for _, op := range []string{"readdir", "glob", "walk", "removeall"} {
			n := c.Case("bigdir", kvs("op", op), kvi("entries", sh.n), kvi("namelen", sh.nameLen))
			c.NT(n)
			c.Stat("bigdir_" + op)
			done := make(chan struct{})
			var a, b res
			go func() { a, b = run(op); close(done) }()
			select {
			case <-done:
			case <-time.After(60 * time.Second):
				c.Oracle(n, false, fmt.Sprintf("hang: %s on a directory of %d entries did not return within 60 s", op, sh.n))
				p.Close()
				return
			}
			switch {
			case a.cat != b.cat:
				c.Oracle(n, false, fmt.Sprintf("bigdir-category: %s on a directory of %d entries with %d-byte names: Client %s, package os %s", op, sh.n, sh.nameLen, a.cat, b.cat))
			case a.val != b.val:
				c.Oracle(n, false, fmt.Sprintf("bigdir-value: %s on a directory of %d entries with %d-byte names: the Client's result differs from package os's (%d vs %d bytes of names)", op, sh.n, sh.nameLen, len(a.val), len(b.val)))
			default:
				c.Oracle(n, true, "")
			}
		}
		p.Close()
		os.RemoveAll(rootA)
		os.RemoveAll(rootB)
	}
}
