package main

import (
	"fmt"
	"io"
	"os"
	"strings"
	"sync"
	"time"

	"github.com/pkg/sftp"
)

// c02 "openrace" (request server, child process): a client that does not wait. After INIT the OPEN of a file and requests on
// the handle it is going to get ("1": handles are predictable) are written without waiting for the HANDLE reply, while the
// handler's Fileread / Filewrite / OpenFile call is still running (it is held for 40 ms). The READ/WRITE go to the parallel workers and may
// reach the half-open request at any moment. Whatever the server makes of them (DATA, or a failure status: the handle is not
// there yet), every request gets exactly one response, in arrival order, with its own id - and the server survives.
type c02RaceStore struct {
	mu   sync.Mutex
	hold time.Duration
	data []byte
}

type c02RaceFile struct{ s *c02RaceStore }

func (f c02RaceFile) ReadAt(b []byte, off int64) (int, error) {
	f.s.mu.Lock()
	defer f.s.mu.Unlock()
	if off >= int64(len(f.s.data)) {
		return 0, io.EOF
	}
	n := copy(b, f.s.data[off:])
	if n < len(b) {
		return n, io.EOF
	}
	return n, nil
}
func (f c02RaceFile) WriteAt(b []byte, off int64) (int, error) { return len(b), nil }

func (s *c02RaceStore) Fileread(r *sftp.Request) (io.ReaderAt, error) {
	time.Sleep(s.hold)
	return c02RaceFile{s}, nil
}
func (s *c02RaceStore) Filewrite(r *sftp.Request) (io.WriterAt, error) {
	time.Sleep(s.hold)
	return c02RaceFile{s}, nil
}
func (s *c02RaceStore) Filecmd(r *sftp.Request) error { return nil }
func (s *c02RaceStore) Filelist(r *sftp.Request) (sftp.ListerAt, error) {
	return oneLister{memInfo{"f", int64(len(s.data))}}, nil
}

type c02RaceStoreOF struct{ *c02RaceStore }

func (s c02RaceStoreOF) OpenFile(r *sftp.Request) (sftp.WriterAtReaderAt, error) {
	time.Sleep(s.hold)
	return c02RaceFile{s.c02RaceStore}, nil
}

func init() {
	childEntries["c02race"] = func([]string) {
		childLoop(func(req string) string {
			var pflags uint32
			var nrw, openFile, alloc, gap int
			if _, err := fmt.Sscanf(req, "%d %d %d %d %d", &pflags, &nrw, &openFile, &alloc, &gap); err != nil {
				return "FAIL harness: bad request"
			}
			return c02RaceRun(pflags, nrw, openFile == 1, alloc == 1, time.Duration(gap)*time.Millisecond)
		})
	}
}

func c02RaceRun(pflags uint32, nrw int, openFile, alloc bool, gap time.Duration) string {
	st := &c02RaceStore{hold: 40 * time.Millisecond, data: []byte("0123456789abcdef")}
	h := sftp.Handlers{FileGet: st, FilePut: st, FileCmd: st, FileList: st}
	if openFile {
		h.FilePut = c02RaceStoreOF{st}
	}
	hub := newPgHub()
	in, err := pgStartHandlers(h, alloc, hub)
	if err != nil {
		return "FAIL harness: " + err.Error()
	}
	var prog []*pgReq
	prog = append(prog, &pgReq{op: "INIT", typ: fxpInit, frame: rawInit()})
	var stream []byte
	stream = append(stream, rawInit()...)
	add := func(op string, typ byte, id uint32, fr []byte) {
		prog = append(prog, &pgReq{op: op, typ: typ, id: id, frame: fr})
		stream = append(stream, fr...)
	}
	add("OPEN", fxpOpen, 1000, rawOpen(1000, "/f", pflags, 0, nil))
	// the OPEN goes first; the requests on its handle follow gap later, while the handler's open call is being held - or, with
	// no gap, in the same Write as the OPEN: they then reach the request object at the very moment it is being set up (the
	// moment of the data race on Request.Method, F27, repaired)
	if gap > 0 {
		in.cli.SetWriteDeadline(time.Now().Add(5 * time.Second))
		if _, err := in.cli.Write(stream); err != nil {
			return "FAIL harness: cannot write the requests: " + err.Error()
		}
		stream = nil
		time.Sleep(gap)
	}
	for k := 0; k < nrw; k++ {
		id := uint32(2000 + k)
		if k%2 == 0 {
			add("READ", fxpRead, id, rawRead(id, "1", uint64(k), 8))
		} else {
			add("WRITE", fxpWrite, id, rawWrite(id, "1", uint64(k), []byte("zz")))
		}
	}
	add("STAT", fxpStat, 3000, rawPathOp(fxpStat, 3000, "/f"))
	in.cli.SetWriteDeadline(time.Now().Add(5 * time.Second))
	if _, err := in.cli.Write(stream); err != nil {
		return "FAIL harness: cannot write the requests: " + err.Error()
	}
	deadline := time.Now().Add(5 * time.Second)
	for in.col.count() < len(prog) && time.Now().Before(deadline) {
		time.Sleep(5 * time.Millisecond)
	}
	resps := in.col.all()
	down := in.shutdown()
	if ok, why := pgCheckStream(prog, resps); !ok {
		return "FAIL " + strings.ReplaceAll(why, "\n", " ")
	}
	if !down {
		return "FAIL server-hang: Serve did not return within 5 s of closing the connection"
	}
	return "ok"
}

// c02OpenRaces runs the openrace cases in a child process (a server that panics must not take the family down with it).
func c02OpenRaces(c *Ctx) {
	var ch *childProc
	defer func() {
		if ch != nil {
			ch.kill()
		}
	}()
	reps := 2
	if c.Thorough() {
		reps = 20
	}
	for rep := 0; rep < reps; rep++ {
		for _, pflags := range []uint32{1, 2, 3, 0x1a} {
			for _, nrw := range []int{1, 2, 6} {
				for _, openFile := range []int{0, 1} {
					alloc := (rep + nrw) % 2
					gap := 10 * (1 - rep%2) // ms; odd repetitions: everything in one Write
					cn := c.Case("openrace", kvi("rep", rep), kvx("pflags", uint64(pflags)), kvi("nrw", nrw), kvi("openfile", openFile), kvi("alloc", alloc), kvi("gap", gap))
					c.NT(cn)
					c.Stat("cases_openrace")
					if ch == nil {
						var err error
						if ch, err = startChild("c02race", 8<<20); err != nil {
							c.Diag("c02 openrace: cannot start child: %v", err)
							return
						}
					}
					ans, alive := ch.ask(fmt.Sprintf("%d %d %d %d %d", pflags, nrw, openFile, alloc, gap), 30*time.Second)
					if !alive {
						ch.kill()
						ch = nil
						c.Oracle(cn, false, "server-crash: the server process died (or hung) when READ/WRITE requests on the predicted handle arrived while the handler's open call was still running")
						continue
					}
					if ans == "ok" {
						c.Oracle(cn, true, "")
					} else {
						c.Oracle(cn, false, strings.TrimPrefix(ans, "FAIL "))
					}
				}
			}
		}
	}
	_ = os.Getpid
}
