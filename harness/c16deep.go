package main

import (
	"fmt"
	"os"
	"sort"
	"strings"
)

// c16 kind lstatfail (os-backed server): a directory one of whose entries cannot be examined - its path is longer than the
// kernel takes (the directory's own path has 3990 bytes, the entry's name 250), so lstat on it fails with ENAMETOOLONG, which is
// what os.File.Readdir meets in the middle of a batch. A listing that loses an entry is not a listing: either ReadDir fails, or it
// returns every name that is there, each once.
func c16LstatFailures(c *Ctx) {
	root, err := os.MkdirTemp("", "vh-c16deep-")
	if err != nil {
		return
	}
	defer os.RemoveAll(root)
	orig, _ := os.Getwd()
	if orig == "" {
		orig = "/"
	}
	defer os.Chdir(orig)
	dir := root
	for len(dir)+201 <= 3990 {
		dir += "/" + strings.Repeat("d", 200)
	}
	if rest := 3990 - len(dir) - 1; rest > 0 {
		dir += "/" + strings.Repeat("e", rest)
	}
	if err := os.MkdirAll(dir, 0o755); err != nil {
		c.Diag("lstatfail: cannot build a %d byte path: %v", len(dir), err)
		return
	}
	d, err := os.Open(dir)
	if err != nil {
		c.Diag("lstatfail: %v", err)
		return
	}
	// entries are created relative to the open directory (their full paths may be too long to name)
	mk := func(name string) error {
		if err := d.Chdir(); err != nil {
			return err
		}
		defer os.Chdir(orig)
		return os.WriteFile(name, []byte("x"), 0o644)
	}
	for _, sizes := range [][2]int{{300, 250}, {5, 250}, {140, 120}} {
		// a fresh directory level for each shape
		sub := fmt.Sprintf("s%d", sizes[0])
		if err := d.Chdir(); err != nil {
			break
		}
		os.Mkdir(sub, 0o755)
		os.Chdir(orig)
		target := dir + "/" + sub
		sd, err := os.Open(target)
		if err != nil {
			c.Diag("lstatfail: %v", err)
			continue
		}
		old := d
		d = sd
		ok := true
		for i := 0; i < sizes[0] && ok; i++ {
			ok = mk(fmt.Sprintf("f%03d", i)) == nil
		}
		long := strings.Repeat("L", sizes[1])
		if ok {
			ok = mk(long) == nil
		}
		d = old
		names, _ := sd.Readdirnames(-1)
		sd.Close()
		if !ok {
			c.Diag("lstatfail: cannot populate %d entries", sizes[0])
			continue
		}
		sort.Strings(names)
		for _, alloc := range []bool{false, true} {
			cn := c.Case("lstatfail", kvi("entries", sizes[0]+1), kvi("longname", sizes[1]), kvi("dirpath", len(target)), kvb("alloc", alloc))
			c.NT(cn)
			c.Stat("lstatfail_cases")
			p, err := newPair(pairOpt{alloc: alloc})
			if err != nil {
				c.Oracle(cn, false, "harness: "+err.Error())
				continue
			}
			got, lerr := p.Client.ReadDir(target)
			p.Close()
			why := ""
			if lerr == nil {
				var gn []string
				for _, fi := range got {
					gn = append(gn, fi.Name())
				}
				sort.Strings(gn)
				if len(gn) != len(names) {
					why = fmt.Sprintf("entry-lost: the directory holds %d entries (one of them cannot be examined: its path is too long); ReadDir returned %d of them and no error", len(names), len(gn))
				} else {
					for i := range gn {
						if gn[i] != names[i] {
							why = fmt.Sprintf("entry-lost: ReadDir returned no error and a listing that differs from the directory at entry %d", i)
							break
						}
					}
				}
			}
			if lerr != nil {
				c.Stat("lstatfail_listing_failed")
			} else {
				c.Stat("lstatfail_listing_complete")
			}
			c.Oracle(cn, why == "", why)
		}
	}
	d.Close()
}
