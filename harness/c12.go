package main

// C12 — a remote File keeps os.File's offset and closed-state semantics.

import (
	"bytes"
	"errors"
	"fmt"
	"io"
	"math/rand"
	"net"
	"os"
	"path/filepath"
	"strings"
	"sync"
	"sync/atomic"
	"time"

	"github.com/pkg/sftp"
)

func init() { register("c12", runC12) }

func runC12(c *Ctx) {
	c.Rule("(a) Seek with whence in {0,1,2,7} x deltas around 0, the size and negative results, on a real File after seeded prior offsets; " +
		"(b) seeded sequences of File methods (Read, Write, ReadAt, WriteAt, Seek, WriteTo, ReadFrom, Truncate, Stat) under every concurrency option against both servers, offset compared after each step with an os.File driven identically; " +
		"(b') kind fseqm: the same random method sequences replayed on the extracted model of Xfer/FileOps.v (count, error, data, offset after every step; final content); " +
		"(c) closed state: every method after Close returns os.ErrClosed, one CLOSE sent; (d) Close racing ReadAt/WriteAt/Stat/Truncate: no request carrying the handle after CLOSE; (c') kind closefails: CLOSE answered with a failure status: Close returns the error and the File is closed all the same; (d') kind closehammer: 2-6 goroutines repeating one method until it reports os.ErrClosed while Close is called after a seeded 20-420 us; " +
		"non-trivial = sequence step that moves the offset or fails")
	// (a) Seek cases: model-compared
	dir, err := os.MkdirTemp("", "vh-c12-")
	if err != nil {
		c.Diag("mktemp: %v", err)
		return
	}
	defer os.RemoveAll(dir)
	name := filepath.Join(dir, "f")
	os.WriteFile(name, patternBytes(0, 20), 0o644)
	p, err := newPair(pairOpt{})
	if err != nil {
		c.Diag("pair: %v", err)
		return
	}
	f, err := p.Client.OpenFile(name, os.O_RDWR)
	if err != nil {
		c.Diag("open: %v", err)
		return
	}
	lf, _ := os.OpenFile(name, os.O_RDWR, 0)
	for _, cur := range []int64{0, 1, 19, 20, 21, 1000} {
		for _, wh := range []int{0, 1, 2, 7} {
			for _, d := range []int64{-1001, -21, -20, -1, 0, 1, 20, 5000} {
				f.Seek(cur, io.SeekStart)
				lf.Seek(cur, io.SeekStart)
				got, err := f.Seek(d, wh)
				now, _ := f.Seek(0, io.SeekCurrent)
				neg, mag := d < 0, d
				if neg {
					mag = -d
				}
				n := c.Case("seek", kvx("cur", uint64(cur)), kvx("size", 20), kvi("whence", wh), kvb("neg", neg), kvx("delta", uint64(mag)))
				c.NT(n)
				c.Obs(n, kvx("off", uint64(now)), kvb("fail", err != nil))
				want, werr := lf.Seek(d, wh)
				wnow, _ := lf.Seek(0, io.SeekCurrent)
				ok, why := true, ""
				if (err != nil) != (werr != nil) || now != wnow || (err == nil && got != want) {
					ok, why = false, fmt.Sprintf("Seek(%d,%d) from %d: File -> (%d,%v) now %d; os.File -> (%d,%v) now %d", d, wh, cur, got, err, now, want, werr, wnow)
				}
				c.Oracle(n, ok, why)
				c.Stat(fmt.Sprintf("seek_whence_%d", wh))
			}
		}
	}
	// (a') the same for a File whose path no longer names it: after Open the file is renamed away and another, shorter file is
	// put in its place (for the local twin as well). An os.File follows the open file; so must the remote File, with either
	// setting of UseFstat: end-relative positions are relative to the end of the OPEN file
	for _, useFstat := range []bool{false, true} {
		nameR, nameL := filepath.Join(dir, fmt.Sprintf("mvR%v", useFstat)), filepath.Join(dir, fmt.Sprintf("mvL%v", useFstat))
		os.WriteFile(nameR, patternBytes(0, 20), 0o644)
		os.WriteFile(nameL, patternBytes(0, 20), 0o644)
		p2, err := newPair(pairOpt{clientOpts: []sftp.ClientOption{sftp.UseFstat(useFstat)}})
		if err != nil {
			c.Diag("pair: %v", err)
			break
		}
		f2, err := p2.Client.OpenFile(nameR, os.O_RDWR)
		lf2, err2 := os.OpenFile(nameL, os.O_RDWR, 0)
		if err != nil || err2 != nil {
			c.Diag("open: %v %v", err, err2)
			p2.Close()
			break
		}
		for _, nm := range []string{nameR, nameL} {
			os.Rename(nm, nm+".moved")
			os.WriteFile(nm, patternBytes(9, 7), 0o644)
		}
		for _, cur := range []int64{0, 19, 21} {
			for _, d := range []int64{-21, -20, -10, -1, 0, 1, 5000} {
				f2.Seek(cur, io.SeekStart)
				lf2.Seek(cur, io.SeekStart)
				got, err := f2.Seek(d, io.SeekEnd)
				now, _ := f2.Seek(0, io.SeekCurrent)
				neg, mag := d < 0, d
				if neg {
					mag = -d
				}
				n := c.Case("seek", kvx("cur", uint64(cur)), kvx("size", 20), kvi("whence", 2), kvb("neg", neg), kvx("delta", uint64(mag)), kvb("moved", true), kvb("usefstat", useFstat))
				c.NT(n)
				c.Obs(n, kvx("off", uint64(now)), kvb("fail", err != nil))
				want, werr := lf2.Seek(d, io.SeekEnd)
				wnow, _ := lf2.Seek(0, io.SeekCurrent)
				ok, why := true, ""
				if (err != nil) != (werr != nil) || now != wnow || (err == nil && got != want) {
					ok, why = false, fmt.Sprintf("seek-follows-path: after the open file was renamed away, Seek(%d,SeekEnd) from %d: File -> (%d,%v) now %d; os.File -> (%d,%v) now %d", d, cur, got, err, now, want, werr, wnow)
				}
				c.Oracle(n, ok, why)
				c.Stat("seek_end_on_a_renamed_file")
			}
		}
		f2.Close()
		lf2.Close()
		p2.Close()
	}
	f.Close()
	lf.Close()
	p.Close()

	// (b) method sequences vs os.File
	nseq := 120
	if c.Thorough() {
		nseq = 6000
	}
	backends := []string{"os", "osalloc", "req", "reqalloc"}
	for s := 0; s < nseq; s++ {
		c12Sequence(c, s, backends[s%len(backends)], dir, false)
	}
	// (b'') as many sequences again on the request server over a backend that fails at seeded request offsets
	for s := nseq; s < 2*nseq; s++ {
		c12Sequence(c, s, backends[2+s%2], dir, true)
	}
	// (c)+(d) closed state and Close races against the scripted peer (it logs what arrives after CLOSE)
	nrace := 60
	if c.Thorough() {
		nrace = 2000
	}
	for i := 0; i < nrace; i++ {
		c12CloseRace(c, i)
	}
	for i := 0; i < 16; i++ {
		c12CloseFails(c, i)
	}
	for i := 0; i < 48; i++ {
		c12SourceFails(c, i)
	}
	nham := 400
	if c.Thorough() {
		nham = 6000
	}
	for i := 0; i < nham; i++ {
		c12CloseHammer(c, i)
	}
	c12FailedConcurrentWrites(c)
	c12SinkFails(c, dir)
	c12NotRegular(c)
}

// (f) files that are not known to be regular - a character device, permissions without any type bits, no permissions attribute at
// all in the STAT reply - served by a peer that hands out fewer bytes per READ than asked for (legal for such files): WriteTo and
// Read deliver every byte, in order, and the offset advances by exactly the bytes transferred (model: the sequential path; a
// concurrent fixed-stride path would leave holes).
func c12NotRegular(c *Ctx) {
	reps := 36
	if c.Thorough() {
		reps = 600
	}
	for i := 0; i < reps; i++ {
		p := []int{4, 8, 16}[i%3]
		api := []string{"writeto", "writeto", "read"}[i%3]
		// (Read on its concurrent path needs packets no larger than the server's payload - C01's side condition; WriteTo picks the
		// sequential path for such files by itself, Read is run with concurrent reads off)
		x := &xcase{api: api, p: p, conc: 2 + i%2, cr: api == "writeto", cw: false, fst: i%2 == 0, flen: 5*p + 3, n: 5*p + 3, off: []int{0, 1, p}[(i/3)%3],
			maxtx: []int{p/2 + 1, p - 1, 3}[(i/9)%3], src: "opaque", backend: []string{"peer", "peerperm"}[i%2], regular: false, modeKind: i % 3}
		r, n := emitX(c, x)
		if r == nil {
			continue
		}
		c.NT(n)
		c.Stat("not_regular_short_reads")
		ok, why := oracleExact(x, r)
		c.Oracle(n, ok, why)
	}
}

// (e) "advance it by the bytes transferred" when a concurrent Write is refused in several places at once: Write of 7 chunks at
// a non-zero offset under UseConcurrentWrites, two or three of the chunks refused with different status codes, against the
// scripted peer answering in request order and in permuted order (a server may answer outstanding requests in any order).
// Whatever order the refusals arrive in, the count is the length of the prefix before the lowest refused chunk, the error is
// that chunk's, and the offset has advanced by exactly that count (model: the extracted transfer functions; oracle: C13's).
func c12FailedConcurrentWrites(c *Ctx) {
	reps := 48
	if c.Thorough() {
		reps = 1500
	}
	codes := []uint32{4, 2, 3, 9}
	for i := 0; i < reps; i++ {
		p := 2 + i%3
		x := &xcase{api: []string{"write", "writeat", "write"}[i%3], p: p, conc: 2 + i%3, cw: true, cr: i%2 == 0, flen: 3 * p, n: 7*p + i%2, off: []int{p, 1, 2 * p, 3*p + 1}[i%4],
			maxtx: 32768, src: "opaque", backend: []string{"peerperm", "peer", "peerperm"}[i%3], regular: true}
		a := c.Rng.Intn(6)
		b := a + 1 + c.Rng.Intn(6-a)
		x.wfail = map[uint64]uint32{uint64(x.off + a*p): codes[i%4], uint64(x.off + b*p): codes[(i+1)%4]}
		if i%5 == 0 && b < 6 {
			x.wfail[uint64(x.off+6*p)] = codes[(i+2)%4]
		}
		r, n := emitX(c, x)
		if r == nil {
			continue
		}
		c.NT(n)
		c.Stat("failed_concurrent_writes")
		ok, why := oraclePartial(x, r)
		c.Oracle(n, ok, why)
	}
}

func c12Sequence(c *Ctx, s int, backend, dir string, failing bool) {
	pk := []int{1, 2, 3, 7, 32768}[c.Rng.Intn(5)]
	optsConc, optsCR, optsCW, optsFS := 1+c.Rng.Intn(3), c.Rng.Intn(2) == 0, c.Rng.Intn(2) == 0, c.Rng.Intn(2) == 0
	if failing {
		optsCW = false
	}
	opts := []sftp.ClientOption{sftp.MaxPacketUnchecked(pk), sftp.MaxConcurrentRequestsPerFile(optsConc), sftp.UseConcurrentReads(optsCR),
		sftp.UseConcurrentWrites(optsCW), sftp.UseFstat(optsFS)}
	initial := patternBytes(0, c.Rng.Intn(3*pk+2)%40)
	localName := filepath.Join(dir, fmt.Sprintf("local%d", s))
	os.WriteFile(localName, initial, 0o644)
	lf, _ := os.OpenFile(localName, os.O_RDWR, 0)
	defer lf.Close()
	defer os.Remove(localName)
	var cl *sftp.Client
	var pr *pair
	var rplan, wplan map[uint64]uint32
	var mf *memFile
	remote := "/f"
	var err error
	switch backend {
	case "os", "osalloc":
		remote = filepath.Join(dir, fmt.Sprintf("remote%d", s))
		os.WriteFile(remote, initial, 0o644)
		defer os.Remove(remote)
		pr, err = newPair(pairOpt{alloc: backend == "osalloc", clientOpts: opts})
	default:
		fs := newMemFS()
		mf = fs.get("/f", true)
		mf.data = append([]byte(nil), initial...)
		// a third of the request-server sequences run over a backend whose ReadAt / WriteAt fails at seeded request offsets
		// (sequential writes only: with concurrent writes the chunks beyond a failing one may or may not be sent). The os.File
		// cannot follow those; the model of Xfer/FileOps.v can (kind fseqm carries the plan).
		if !optsCW && (failing || c.Rng.Intn(3) == 0) {
			rplan, wplan = map[uint64]uint32{}, map[uint64]uint32{}
			for j, nf := 0, 1+c.Rng.Intn(3); j < nf; j++ {
				pl := wplan
				if c.Rng.Intn(3) == 0 {
					pl = rplan
				}
				pl[uint64(c.Rng.Intn(40))] = []uint32{4, 2, 3}[c.Rng.Intn(3)]
			}
			mf.rfail, mf.wfail = rplan, wplan
			c.Stat("fseqm_sequences_over_a_failing_backend")
		}
		pr, err = newPair(pairOpt{reqServer: true, handlers: fs.handlers(), alloc: backend == "reqalloc", clientOpts: opts})
	}
	if err != nil {
		c.Diag("pair: %v", err)
		return
	}
	cl = pr.Client
	defer pr.Close()
	f, err := cl.OpenFile(remote, os.O_RDWR)
	if err != nil {
		c.Diag("open: %v", err)
		return
	}
	steps := 8
	var mops, mobs []string // the same sequence for the model of Xfer/FileOps.v, and what the remote File did at each step
	mok := true
	for i := 0; i < steps; i++ {
		op := []string{"read", "write", "readat", "writeat", "seek", "writeto", "readfrom", "truncate", "stat"}[c.Rng.Intn(9)]
		ln := c.Rng.Intn(2*pk+2) % 50
		off := int64(c.Rng.Intn(30))
		var rn, ln2 int64
		var rerr, lerr error
		var wdata []byte // what a Write / ReadFrom was asked to transfer
		so, _ := f.Seek(0, io.SeekCurrent)
		switch op {
		case "read":
			a, b := make([]byte, ln), make([]byte, ln)
			n1, e1 := f.Read(a)
			mops, mobs = append(mops, fmt.Sprintf("r:%d", ln)), append(mobs, c12Obs(int64(n1), e1, a[:n1]))
			n2, e2 := io.ReadFull(lf, b)
			if e2 == io.ErrUnexpectedEOF {
				e2 = io.EOF
			}
			if ln == 0 {
				e2 = nil
			}
			rn, ln2, rerr, lerr = int64(n1), int64(n2), e1, e2
			if !bytes.Equal(a[:n1], b[:n2]) {
				rerr = errors.New("content differs")
			}
		case "write":
			d := patternBytes(2000+i, ln)
			wdata = d
			n1, e1 := f.Write(d)
			mops, mobs = append(mops, "w:"+hexs(d)), append(mobs, c12Obs(int64(n1), e1, nil))
			n2, e2 := lf.Write(d)
			rn, ln2, rerr, lerr = int64(n1), int64(n2), e1, e2
		case "readat":
			a, b := make([]byte, ln), make([]byte, ln)
			n1, e1 := f.ReadAt(a, off)
			mops, mobs = append(mops, fmt.Sprintf("ra:%d:%d", off, ln)), append(mobs, c12Obs(int64(n1), e1, a[:n1]))
			n2, e2 := lf.ReadAt(b, off)
			if ln == 0 {
				e2 = nil
			}
			rn, ln2, rerr, lerr = int64(n1), int64(n2), e1, e2
		case "writeat":
			d := patternBytes(3000+i, ln)
			n1, e1 := f.WriteAt(d, off)
			mops, mobs = append(mops, fmt.Sprintf("wa:%d:%s", off, hexs(d))), append(mobs, c12Obs(int64(n1), e1, nil))
			n2, e2 := lf.WriteAt(d, off)
			rn, ln2, rerr, lerr = int64(n1), int64(n2), e1, e2
		case "seek":
			wh := c.Rng.Intn(3)
			d := int64(c.Rng.Intn(40) - 15)
			n1, e1 := f.Seek(d, wh)
			n2, e2 := lf.Seek(d, wh)
			if e1 != nil {
				n1 = 0
			}
			mops, mobs = append(mops, fmt.Sprintf("sk:%d:%d", wh, d)), append(mobs, c12Obs(n1, e1, nil))
			if e2 != nil {
				n2 = 0
			}
			rn, ln2, rerr, lerr = n1, n2, e1, e2
		case "writeto":
			var a, b bytes.Buffer
			n1, e1 := f.WriteTo(&a)
			mops, mobs = append(mops, "wt"), append(mobs, c12Obs(n1, e1, a.Bytes()))
			n2, e2 := io.Copy(&b, lf)
			rn, ln2, rerr, lerr = n1, n2, e1, e2
			if !bytes.Equal(a.Bytes(), b.Bytes()) {
				rerr = errors.New("content differs")
			}
		case "readfrom":
			d := patternBytes(4000+i, ln)
			wdata = d
			n1, e1 := f.ReadFrom(bytes.NewReader(d))
			mops, mobs = append(mops, "rf:"+hexs(d)), append(mobs, c12Obs(n1, e1, nil))
			n2, e2 := lf.ReadFrom(bytes.NewReader(d))
			rn, ln2, rerr, lerr = n1, n2, e1, e2
		case "truncate":
			e1 := f.Truncate(off)
			mops, mobs = append(mops, fmt.Sprintf("tr:%d", off)), append(mobs, c12Obs(0, e1, nil))
			e2 := lf.Truncate(off)
			rerr, lerr = e1, e2
		case "stat":
			fi1, e1 := f.Stat()
			fi2, e2 := lf.Stat()
			if e1 == nil && e2 == nil {
				rn, ln2 = fi1.Size(), fi2.Size()
			}
			if e1 == nil {
				mops, mobs = append(mops, "st"), append(mobs, c12Obs(fi1.Size(), nil, nil))
			} else {
				mok = false
			}
			rerr, lerr = e1, e2
		}
		ro, _ := f.Seek(0, io.SeekCurrent)
		lo, _ := lf.Seek(0, io.SeekCurrent)
		if len(mobs) > 0 {
			mobs[len(mobs)-1] = fmt.Sprintf(mobs[len(mobs)-1], ro)
		}
		n := c.Case("fileseq", kvi("seq", s), kvi("step", i), kvs("op", op), kvi("len", ln), kvx("off", uint64(off)), kvi("p", pk), kvs("be", backend))
		if ro != 0 || rerr != nil {
			c.NT(n)
		}
		ok, why := true, ""
		if len(rplan)+len(wplan) > 0 {
			// no os.File to compare with: the model decides (kind fseqm below). What the property says without any model: a Write or
			// ReadFrom advances the offset by the bytes transferred - after a refused chunk the offset marks the end of what is in the file
			if wdata != nil && mf != nil {
				content := mf.bytes()
				moved := ro - so
				if moved < 0 || moved > int64(len(wdata)) || ro > int64(len(content)) || !bytes.Equal(content[so:ro], wdata[:moved]) {
					if moved >= 0 && moved <= int64(len(wdata)) && moved > 0 {
						ok, why = false, fmt.Sprintf("offset-beyond-transfer: %s (err=%v) moved the offset from %d to %d, but the file does not hold those %d bytes of the source there", op, rerr, so, ro, moved)
					} else if moved != 0 {
						ok, why = false, fmt.Sprintf("offset-beyond-transfer: %s (err=%v) moved the offset from %d to %d for a source of %d bytes", op, rerr, so, ro, len(wdata))
					}
				}
			}
		} else if ro != lo {
			ok, why = false, fmt.Sprintf("after %s the File offset is %d, the os.File offset %d", op, ro, lo)
		} else if rn != ln2 || (rerr == nil) != (lerr == nil) {
			ok, why = false, fmt.Sprintf("%s: File -> (%d,%v), os.File -> (%d,%v)", op, rn, rerr, ln2, lerr)
		}
		c.Oracle(n, ok, why)
		c.Stat("seqop_" + op)
		if !ok {
			break
		}
	}
	f.Close()
	// the same sequence on the model: per step count, error?, offset afterwards, data; and the final content of the file
	var final []byte
	var ferr error
	if mf != nil {
		final = mf.bytes()
	} else if g, e := cl.Open(remote); e == nil {
		final, ferr = io.ReadAll(g)
		g.Close()
	} else {
		ferr = e
	}
	if mok && ferr == nil {
		cr, cw, ufs := optsCR, optsCW, optsFS
		n := c.Case("fseqm", kvi("seq", s), kvi("p", pk), kvi("conc", optsConc), kvb("cr", cr), kvb("cw", cw), kvb("fstat", ufs), kvx("maxtx", 32768), kvs("be", backend), kvs("rfail", planStr(rplan)), kvs("wfail", planStr(wplan)),
			"init="+hexs(initial), "ops="+strings.Join(append([]string{}, mops...), ","))
		if len(mops) == 0 {
			c.Obs(n, "res=-", "final="+hexs(final))
		} else {
			c.Obs(n, "res="+strings.Join(mobs, ","), "final="+hexs(final))
		}
		c.Oracle(n, true, "")
		if len(mops) >= 3 {
			c.NT(n)
		}
		c.Stat("fseqm_cases")
	}
}

// c12Obs: count, error?, offset afterwards (filled in once known), data
func c12Obs(n int64, err error, data []byte) string {
	e := 0
	if err != nil {
		e = 1
	}
	return fmt.Sprintf("%d:%d:%%d:%s", n, e, hexs(data))
}

func c12CloseRace(c *Ctx, i int) {
	c1, c2 := net.Pipe()
	peer := &filePeer{store: patternBytes(0, 64), maxTx: 32768, regular: true, rng: rand.New(rand.NewSource(c.Rng.Int63())), permute: i%2 == 1, window: 4}
	go peer.serve(c2)
	cl, err := sftp.NewClientPipe(c1, c1, sftp.MaxPacketUnchecked(8), sftp.MaxConcurrentRequestsPerFile(3))
	if err != nil {
		c.Diag("client: %v", err)
		return
	}
	f, err := cl.Open("/f")
	if err != nil {
		c.Diag("open: %v", err)
		return
	}
	g := 1 + i%4
	var wg sync.WaitGroup
	start := make(chan struct{})
	var mu sync.Mutex
	notClosedErr := 0
	for k := 0; k < g; k++ {
		wg.Add(1)
		go func(k int) {
			defer wg.Done()
			<-start
			for j := 0; j < 6; j++ {
				var err error
				switch (k + j) % 4 {
				case 0:
					_, err = f.ReadAt(make([]byte, 20), int64(j))
				case 1:
					_, err = f.WriteAt([]byte("abcdefghijkl"), int64(j*3))
				case 2:
					_, err = f.Stat()
				case 3:
					err = f.Truncate(64)
				}
				if err != nil && !errors.Is(err, os.ErrClosed) && err != io.EOF {
					mu.Lock()
					notClosedErr++
					mu.Unlock()
				}
			}
		}(k)
	}
	close(start)
	time.Sleep(time.Duration(c.Rng.Intn(300)) * time.Microsecond)
	cerr := f.Close()
	wg.Wait()
	// after Close: every method returns os.ErrClosed
	var after []error
	_, e := f.Read(make([]byte, 1))
	after = append(after, e)
	_, e = f.Write([]byte("x"))
	after = append(after, e)
	_, e = f.ReadAt(make([]byte, 1), 0)
	after = append(after, e)
	_, e = f.WriteAt([]byte("x"), 0)
	after = append(after, e)
	_, e = f.Seek(0, io.SeekStart)
	after = append(after, e)
	_, e = f.Stat()
	after = append(after, e)
	after = append(after, f.Truncate(1), f.Chmod(0o600), f.Sync(), f.Close())
	var buf bytes.Buffer
	_, e = f.WriteTo(&buf)
	after = append(after, e)
	_, e = f.ReadFrom(bytes.NewReader([]byte("zz")))
	after = append(after, e)
	// calls that move no bytes are calls on a closed File all the same (as on an os.File)
	_, e = f.Write(nil)
	after = append(after, e)
	_, e = f.WriteAt([]byte{}, 5)
	after = append(after, e)
	_, e = f.Read([]byte{})
	after = append(after, e)
	_, e = f.ReadAt(nil, 3)
	after = append(after, e)
	cl.Close()
	peer.mu.Lock()
	closes, afterClose := peer.closes, peer.afterClose
	arrivals := string(peer.arrivals)
	peer.mu.Unlock()
	c12CloseWire(c, "closerace", i, arrivals)
	n := c.Case("closerace", kvi("i", i), kvi("g", g), kvb("perm", peer.permute))
	c.NT(n)
	ok, why := true, ""
	for idx, e := range after {
		if !errors.Is(e, os.ErrClosed) {
			ok, why = false, fmt.Sprintf("method #%d after Close returned %v, not os.ErrClosed", idx, e)
		}
	}
	if closes != 1 {
		ok, why = false, fmt.Sprintf("%d CLOSE requests were sent", closes)
	}
	if afterClose != 0 {
		ok, why = false, fmt.Sprintf("%d requests carrying the handle were written to the wire after CLOSE", afterClose)
	}
	if cerr != nil {
		ok, why = false, "Close returned "+cerr.Error()
	}
	if notClosedErr != 0 {
		ok, why = false, fmt.Sprintf("%d racing calls failed with an error other than os.ErrClosed", notClosedErr)
	}
	c.Oracle(n, ok, why)
}

// c12CloseHammer: 2-6 goroutines each repeat ONE method (Truncate, Stat, ReadAt or WriteAt, the kind fixed per case) as fast as
// they can until it reports os.ErrClosed, while Close is called after a short seeded delay. The logging peer counts requests
// that carry the handle and reach the wire after the CLOSE request. Many short cases: the windows in question are a few
// instructions wide.
func c12CloseHammer(c *Ctx, i int) {
	c1, c2 := net.Pipe()
	peer := &filePeer{store: patternBytes(0, 64), maxTx: 32768, regular: true, rng: rand.New(rand.NewSource(c.Rng.Int63())), window: 1}
	go peer.serve(c2)
	cl, err := sftp.NewClientPipe(c1, c1, sftp.MaxPacketUnchecked(32), sftp.MaxConcurrentRequestsPerFile(2))
	if err != nil {
		c.Diag("client: %v", err)
		return
	}
	f, err := cl.Open("/f")
	if err != nil {
		c.Diag("open: %v", err)
		return
	}
	kind := i % 4
	g := 2 + (i/4)%5
	var wg sync.WaitGroup
	start := make(chan struct{})
	var bad int32
	for k := 0; k < g; k++ {
		wg.Add(1)
		go func() {
			defer wg.Done()
			<-start
			for j := 0; j < 200000; j++ {
				var err error
				switch kind {
				case 0:
					err = f.Truncate(64)
				case 1:
					_, err = f.Stat()
				case 2:
					_, err = f.ReadAt(make([]byte, 8), 0)
				case 3:
					_, err = f.WriteAt([]byte("abcd"), 4)
				}
				if errors.Is(err, os.ErrClosed) {
					return
				}
				if err != nil && err != io.EOF {
					atomic.AddInt32(&bad, 1)
					return
				}
			}
		}()
	}
	close(start)
	time.Sleep(time.Duration(20+c.Rng.Intn(400)) * time.Microsecond)
	cerr := f.Close()
	done := make(chan struct{})
	go func() { wg.Wait(); close(done) }()
	hung := false
	select {
	case <-done:
	case <-time.After(10 * time.Second):
		hung = true
	}
	cl.Close()
	if hung {
		<-done
	}
	peer.mu.Lock()
	closes, afterClose := peer.closes, peer.afterClose
	arrivals := string(peer.arrivals)
	peer.mu.Unlock()
	c12CloseWire(c, "closehammer", i, arrivals)
	n := c.Case("closehammer", kvi("i", i), kvs("method", []string{"truncate", "stat", "readat", "writeat"}[kind]), kvi("g", g))
	c.NT(n)
	ok, why := true, ""
	switch {
	case hung:
		ok, why = false, "a method racing with Close did not return within 10 s"
	case closes != 1:
		ok, why = false, fmt.Sprintf("%d CLOSE requests were sent", closes)
	case afterClose != 0:
		ok, why = false, fmt.Sprintf("%d requests carrying the handle were written to the wire after CLOSE (%s racing with Close)", afterClose, []string{"Truncate", "Stat", "ReadAt", "WriteAt"}[kind])
	case cerr != nil:
		ok, why = false, "Close returned "+cerr.Error()
	case bad != 0:
		ok, why = false, fmt.Sprintf("%d racing calls failed with an error other than os.ErrClosed", bad)
	}
	c.Oracle(n, ok, why)
	c.Stat("closehammer_" + []string{"truncate", "stat", "readat", "writeat"}[kind])
}

// c12CloseFails: the server answers CLOSE with a failure status (or the transport dies under the CLOSE). Close returns
// that error - and the File is closed all the same: every method afterwards returns os.ErrClosed, one CLOSE was sent,
// nothing carrying the handle follows it (os.File behaves the same way when close(2) fails).
func c12CloseFails(c *Ctx, i int) {
	c1, c2 := net.Pipe()
	code := []uint32{4, 3, 2, 9}[i%4]
	peer := &filePeer{store: patternBytes(0, 64), maxTx: 32768, regular: true, rng: rand.New(rand.NewSource(int64(i))), window: 1, failClose: code}
	go peer.serve(c2)
	cl, err := sftp.NewClientPipe(c1, c1, sftp.MaxPacketUnchecked(8))
	if err != nil {
		c.Diag("client: %v", err)
		return
	}
	defer cl.Close()
	f, err := cl.Open("/f")
	if err != nil {
		c.Diag("open: %v", err)
		return
	}
	if i%2 == 1 {
		f.ReadAt(make([]byte, 4), 0)
	}
	cerr := f.Close()
	var after []error
	_, e := f.Read(make([]byte, 1))
	after = append(after, e)
	_, e = f.Write([]byte("x"))
	after = append(after, e)
	_, e = f.ReadAt(make([]byte, 1), 0)
	after = append(after, e)
	_, e = f.WriteAt([]byte("x"), 0)
	after = append(after, e)
	_, e = f.Seek(0, io.SeekStart)
	after = append(after, e)
	_, e = f.Stat()
	after = append(after, e)
	after = append(after, f.Truncate(1), f.Chmod(0o600), f.Sync(), f.Close())
	var buf bytes.Buffer
	_, e = f.WriteTo(&buf)
	after = append(after, e)
	_, e = f.ReadFrom(bytes.NewReader([]byte("zz")))
	after = append(after, e)
	peer.mu.Lock()
	closes, afterClose := peer.closes, peer.afterClose
	peer.mu.Unlock()
	n := c.Case("closefails", kvi("i", i), kvx("status", uint64(code)))
	c.NT(n)
	ok, why := true, ""
	if cerr == nil {
		ok, why = false, fmt.Sprintf("Close returned nil although the server answered CLOSE with status %d", code)
	}
	for idx, e := range after {
		if !errors.Is(e, os.ErrClosed) {
			ok, why = false, fmt.Sprintf("method #%d after a Close that reported an error returned %v, not os.ErrClosed", idx, e)
		}
	}
	if closes != 1 {
		ok, why = false, fmt.Sprintf("%d CLOSE requests were sent for one File", closes)
	}
	if afterClose != 0 {
		ok, why = false, fmt.Sprintf("%d requests carrying the handle were written to the wire after CLOSE", afterClose)
	}
	c.Oracle(n, ok, why)
	c.Stat("closefails")
}

// c12CloseWire (kind closewire): the requests the peer saw, in arrival order - 'r' a request carrying the handle, 'c' a CLOSE -
// read by the extracted wire_scan of coq/Xfer/FileLock.v (at most one CLOSE, nothing after it)
func c12CloseWire(c *Ctx, from string, i int, arrivals string) {
	if arrivals == "" {
		arrivals = "-"
	}
	n := c.Case("closewire", kvs("from", from), kvi("i", i), kvs("wire", arrivals))
	c.Obs(n, "scan=ok")
	c.Oracle(n, true, "")
	if strings.Contains(arrivals, "c") && strings.Contains(arrivals, "r") {
		c.NT(n)
	}
	c.Stat("closewire_cases")
}

// c12FailingSource hands out its data and then fails with an error that is not io.EOF - in the middle of a chunk, so that
// the last Read (or io.ReadFull) returns bytes AND the error.
type c12FailingSource struct {
	data []byte
	pos  int
	step int
}

var errC12Source = errors.New("c12: the source failed")

func (r *c12FailingSource) Read(p []byte) (int, error) {
	if r.pos >= len(r.data) {
		return 0, errC12Source
	}
	n := len(p)
	if r.step > 0 && n > r.step {
		n = r.step
	}
	if n >= len(r.data)-r.pos {
		n = copy(p, r.data[r.pos:])
		r.pos += n
		return n, errC12Source // the bytes and the error together
	}
	copy(p[:n], r.data[r.pos:])
	r.pos += n
	return n, nil
}
func (r *c12FailingSource) Len() int { return len(r.data) - r.pos + 1000 } // announces more than it will deliver

// c12SourceFails (kind srcfail): ReadFrom / ReadFromWithConcurrency from a source that fails part-way, not on a chunk boundary,
// every WRITE accepted. The call reports the source's error and the bytes it consumed; those bytes are in the file, and the
// offset has advanced by exactly the bytes transferred (a following Write must not overwrite them nor leave a hole).
func c12SourceFails(c *Ctx, i int) {
	pk := []int{8, 32, 1024}[i%3]
	total := []int{pk/2 + 1, pk + 3, 3*pk + pk/2, 7*pk + 1}[(i/3)%4]
	conc := i%2 == 1
	cw := (i/2)%2 == 1
	start := []int64{0, 5}[(i/12)%2]
	src := patternBytes(700+i, total)
	c1, c2 := net.Pipe()
	peer := &filePeer{store: patternBytes(0, 10), maxTx: 32768, regular: true, rng: rand.New(rand.NewSource(int64(i))), window: 4, permute: i%5 == 4}
	go peer.serve(c2)
	cl, err := sftp.NewClientPipe(c1, c1, sftp.MaxPacketUnchecked(pk), sftp.MaxConcurrentRequestsPerFile(3), sftp.UseConcurrentWrites(cw))
	if err != nil {
		c.Diag("srcfail client: %v", err)
		return
	}
	defer cl.Close()
	f, err := cl.OpenFile("/f", os.O_RDWR)
	if err != nil {
		c.Diag("srcfail open: %v", err)
		return
	}
	f.Seek(start, io.SeekStart)
	r := &c12FailingSource{data: src, step: []int{0, 3, pk}[i%3]}
	var n int64
	var rerr error
	done := make(chan struct{})
	go func() {
		defer close(done)
		if conc {
			n, rerr = f.ReadFromWithConcurrency(r, 3)
		} else {
			n, rerr = f.ReadFrom(r)
		}
	}()
	cn := c.Case("srcfail", kvi("i", i), kvi("p", pk), kvi("total", total), kvb("conc", conc), kvb("cw", cw), kvx("start", uint64(start)))
	c.NT(cn)
	c.Stat("srcfail_cases")
	select {
	case <-done:
	case <-time.After(10 * time.Second):
		c.Oracle(cn, false, "ReadFrom from a failing source did not return within 10 s")
		return
	}
	off, _ := f.Seek(0, io.SeekCurrent)
	f.Close()
	peer.mu.Lock()
	file := append([]byte(nil), peer.store...)
	peer.mu.Unlock()
	ok, why := true, ""
	switch {
	case !errors.Is(rerr, errC12Source):
		ok, why = false, fmt.Sprintf("the source failed; ReadFrom returned n=%d err=%v", n, rerr)
	case n != int64(total):
		ok, why = false, fmt.Sprintf("the source handed out %d bytes before it failed; ReadFrom reports %d", total, n)
	case off != start+n:
		ok, why = false, fmt.Sprintf("offset-vs-transfer: %d bytes were transferred from offset %d, the File offset is %d afterwards", n, start, off)
	case int64(len(file)) < start+n || !bytes.Equal(file[start:start+n], src):
		ok, why = false, fmt.Sprintf("the %d bytes consumed from the source are not in the file at offset %d (file has %d bytes)", n, start, len(file))
	}
	c.Oracle(cn, ok, why)
}
