package main

// C08 — decoding arbitrary bytes is total and bounded. All decoder calls run in a memory-limited child process.

import (
	"encoding/binary"
	"encoding/hex"
	"fmt"
	"runtime"
	"sort"
	"strconv"
	"strings"
	"time"

	"github.com/pkg/sftp"
)

func init() {
	register("c08", runC08)
	childEntries["c08"] = func([]string) { childLoop(c08Handle) }
}

func unhex(s string) []byte {
	if s == "-" || s == "" {
		return nil
	}
	b, _ := hex.DecodeString(s)
	return b
}

var memSink runtime.MemStats

func measure(f func()) uint64 {
	runtime.ReadMemStats(&memSink)
	a := memSink.TotalAlloc
	f()
	runtime.ReadMemStats(&memSink)
	return memSink.TotalAlloc - a
}

// c08Handle: "<entry> <hex> [extra]" -> "res=... [cells/consumed] alloc=<bytes> panic=<0|1>"
func c08Handle(req string) string {
	f := strings.Split(req, " ")
	entry, b := f[0], unhex(f[1])
	// the decoders are handed a slice with spare capacity behind it (as the allocator's pages and any pooled buffer have):
	// a decoder may look at len(b), never at what lies beyond it
	spare := make([]byte, len(b)+96)
	copy(spare, b)
	for i := len(b); i < len(spare); i++ {
		spare[i] = 0xaa
	}
	b = spare[:len(b)]
	var out string
	var pan bool
	alloc := measure(func() {
		switch entry {
		case "decA":
			ty, _ := strconv.ParseUint(f[2], 16, 8)
			p, ek, pn := sftp.VerifDecA(byte(ty), b)
			pan = pn
			if p == nil {
				out = "res=err:" + ek
			} else {
				out = "res=" + canon(p)
			}
		case "decBreq":
			p, ek, pn := sftp.VerifDecBRequest(b)
			pan = pn
			if p == nil {
				out = "res=err:" + ek
			} else {
				out = "res=" + canon(p)
			}
		case "decBresp":
			p, ek, pn := sftp.VerifDecBResponse(b)
			pan = pn
			if p == nil {
				out = "res=err:" + ek
			} else {
				out = "res=" + canon(p)
			}
		case "attrsA":
			a, rest, ek, pn := sftp.VerifUnmarshalAttrsA(b)
			pan = pn
			if a == nil {
				out = "res=err:" + ek
			} else {
				out = "res=" + canonAttrs(a) + "/" + hexs(rest)
			}
		case "attrsB":
			a, rest, ek, pn := sftp.VerifUnmarshalAttrsB(b)
			pan = pn
			if a == nil {
				out = "res=err:" + ek
			} else {
				out = "res=" + canonAttrs(a) + "/" + hexs(rest)
			}
		case "frameA", "frameAalloc":
			t, pl, ek, consumed, pn := sftp.VerifRecvPacket(b, entry == "frameAalloc")
			pan = pn
			if ek != "ok" {
				out = fmt.Sprintf("res=err:%s consumed=%x", ek, consumed)
			} else {
				out = fmt.Sprintf("res=%x/%s consumed=%x", t, hexs(pl), consumed)
			}
		case "frameB":
			mx, _ := strconv.ParseUint(f[2], 16, 32)
			t, pl, ek, consumed, pn := sftp.VerifReadPacketB(b, uint32(mx))
			pan = pn
			if ek != "ok" {
				out = fmt.Sprintf("res=err:%s consumed=%x", ek, consumed)
			} else {
				out = fmt.Sprintf("res=%x/%s consumed=%x", t, hexs(pl), consumed)
			}
		case "frameBbuf":
			mx, _ := strconv.ParseUint(f[2], 16, 32)
			cp, _ := strconv.ParseUint(f[3], 16, 32)
			t, pl, ek, consumed, pn := sftp.VerifReadPacketBBuf(b, uint32(mx), int(cp))
			pan = pn
			if ek != "ok" {
				out = fmt.Sprintf("res=err:%s consumed=%x", ek, consumed)
			} else {
				out = fmt.Sprintf("res=%x/%s consumed=%x", t, hexs(pl), consumed)
			}
		default:
			out = "res=unknown-entry"
		}
	})
	if pan {
		out = "res=err:panic"
	}
	return fmt.Sprintf("%s alloc=%d panic=%v", out, alloc, pan)
}

// 0x20000000.. : counts whose product with an element size (8, 12, 16, 24) wraps around in 32 bits
var specials = []uint32{0, 1, 0x7fffffff, 0xffffffff, 0x20000000, 0x20000001, 0x15555556, 0x10000000, 0x0aaaaaab, 0x40000000, 0x80000000}

// mutants of a valid encoding: every truncation, every 4-byte window replaced by special values and by n-1/n+1
func mutants(b []byte, every int) [][]byte {
	var out [][]byte
	for i := 0; i <= len(b); i += every {
		out = append(out, append([]byte(nil), b[:i]...))
	}
	for i := 0; i+4 <= len(b); i += every {
		old := binary.BigEndian.Uint32(b[i:])
		vals := append([]uint32{old - 1, old + 1, 1 << 20}, specials...)
		for _, v := range vals {
			if v == old {
				continue
			}
			m := append([]byte(nil), b...)
			binary.BigEndian.PutUint32(m[i:], v)
			out = append(out, m)
		}
	}
	return out
}

func runC08(c *Ctx) {
	c.Rule("valid encodings of every packet kind, then every truncation point and every 4-byte window replaced by 0,1,n-1,n+1,2^20,2^31-1,2^32-1; every type byte 0..255; random strings; " +
		"fed to makePacket, filexfer RequestPacket/response decoders, both attribute decoders and both frame readers in a child process (ulimit -v); " +
		"additionally (kind framefail, oracle only) both frame readers on a transport that fails with a non-EOF error after every number of bytes of a valid frame, delivering 1, 3 or all requested bytes per read; " +
		"non-trivial = input that is not itself a valid encoding")
	c08ClientData(c)
	c08ClientNames(c)
	child, err := startChild("c08", 6000000)
	if err != nil {
		c.Diag("cannot start child: %v", err)
		return
	}
	defer func() { child.kill() }()
	crashes := 0
	ask := func(kind string, kv []string, req string, inputLen int, valid bool) {
		n := c.Case(kind, kv...)
		if !valid {
			c.NT(n)
		}
		c.Stat("entry_" + kind)
		ans, ok := child.ask(req, 20*time.Second)
		if !ok {
			crashes++
			c.Obs(n, "res=crash")
			c.Oracle(n, false, "decoder crashed the process, exhausted memory or hung (no answer within 20s)")
			child.kill()
			child, _ = startChild("c08", 6000000)
			return
		}
		// split off alloc/panic (diagnostic: not part of the model comparison)
		parts := strings.Split(ans, " ")
		var obs []string
		var alloc uint64
		pan := false
		for _, p := range parts {
			switch {
			case strings.HasPrefix(p, "alloc="):
				alloc, _ = strconv.ParseUint(p[6:], 10, 64)
			case strings.HasPrefix(p, "panic="):
				pan = p == "panic=true"
			default:
				obs = append(obs, p)
			}
		}
		c.Obs(n, obs...)
		// "frames longer than the limit are refused before their body is read": the declared length against the limit in force
		tooLong := false
		if strings.HasPrefix(kind, "frame") {
			limit, declared, have := uint64(262144), uint64(0), false
			for _, e := range kv {
				switch {
				case strings.HasPrefix(e, "max="):
					limit, _ = strconv.ParseUint(e[4:], 16, 64)
				case strings.HasPrefix(e, "b="):
					if b := unhex(e[2:]); len(b) >= 4 {
						declared, have = uint64(binary.BigEndian.Uint32(b)), true
					}
				}
			}
			tooLong = have && declared > limit && declared >= 5 && !(strings.Contains(ans, "res=err:") && strings.Contains(ans, " consumed=4 "))
		}
		switch {
		case pan:
			c.Oracle(n, false, "decoder panicked")
		case tooLong:
			c.Oracle(n, false, "long-frame-read: a frame whose declared length exceeds the limit in force was not refused after its 4 length bytes: "+truncs(ans))
		case alloc > 64*uint64(inputLen)+300000 && !strings.HasPrefix(kind, "frame"):
			c.Oracle(n, false, fmt.Sprintf("allocated %d bytes for %d input bytes", alloc, inputLen))
		case strings.HasPrefix(kind, "frame") && alloc > 64*uint64(inputLen)+600000:
			c.Oracle(n, false, fmt.Sprintf("frame reader allocated %d bytes for %d input bytes", alloc, inputLen))
		default:
			c.Oracle(n, true, "")
		}
		if strings.Contains(ans, "res=err:") {
			c.Stat("outcome_" + strings.SplitN(strings.SplitN(ans, "res=err:", 2)[1], " ", 2)[0])
		} else {
			c.Stat("outcome_value")
		}
	}
	per := 2
	every := 1
	if c.Thorough() {
		per = 12
	}
	kinds := append(append([]string{}, requestKinds...), responseKinds...)
	for _, k := range kinds {
		for i := 0; i < per; i++ {
			p := genPacket(c.Rng, k, flagSubsets[c.Rng.Intn(len(flagSubsets))], false)
			if len(p.Data) > 80 {
				p.Data = p.Data[:80]
			}
			if len(p.S1) > 60 {
				p.S1 = p.S1[:60]
			}
			if len(p.S2) > 60 {
				p.S2 = p.S2[:60]
			}
			enc, err := sftp.VerifEncA(p)
			if err != nil {
				enc, err = sftp.VerifEncB(p)
				if err != nil {
					continue
				}
			}
			if len(enc) > 400 {
				continue
			}
			body := enc[4:]
			for mi, m := range mutants(body, every) {
				valid := mi == len(body)/every && every == 1
				if len(m) >= 1 && isRequestKind(k) {
					ask("decA", []string{kvx("ty", uint64(m[0])), kvh("b", m[1:])}, "decA "+hexs(m[1:])+" "+fmt.Sprintf("%x", m[0]), len(m), valid)
					ask("decBreq", []string{kvh("b", m)}, "decBreq "+hexs(m), len(m), valid)
				} else if len(m) >= 1 {
					ask("decBresp", []string{kvh("b", m)}, "decBresp "+hexs(m), len(m), valid)
				}
			}
			// frames: the whole encoding, mutated
			for _, m := range mutants(enc, 3) {
				ask("frameA", []string{kvh("b", m)}, "frameA "+hexs(m), len(m), false)
				ask("frameB", []string{kvh("b", m), kvx("max", 34000)}, "frameB "+hexs(m)+" 84d0", len(m), false)
			}
			ask("frameAalloc", []string{kvh("b", enc)}, "frameAalloc "+hexs(enc), len(enc), true)
		}
	}
	// attribute blocks
	for _, f := range flagSubsets {
		a := genAttrs(c.Rng, f)
		for i := range a.Ext {
			if len(a.Ext[i][0]) > 30 {
				a.Ext[i][0] = a.Ext[i][0][:30]
			}
			if len(a.Ext[i][1]) > 30 {
				a.Ext[i][1] = a.Ext[i][1][:30]
			}
		}
		enc, err := sftp.VerifEncA(&sftp.VerifPacket{Kind: "attrs", ID: 1, Attrs: a})
		if err != nil {
			continue
		}
		blk := enc[9:]
		for mi, m := range mutants(blk, 1) {
			valid := mi == len(blk)
			ask("attrsA", []string{kvh("b", m)}, "attrsA "+hexs(m), len(m), valid)
			ask("attrsB", []string{kvh("b", m)}, "attrsB "+hexs(m), len(m), valid)
		}
	}
	// every type byte with a plausible payload, both request decoders
	pl := pkt(0, 7).str("abc").u64(5).u32(9).b[1:]
	for t := 0; t < 256; t++ {
		ask("decA", []string{kvx("ty", uint64(t)), kvh("b", pl)}, fmt.Sprintf("decA %s %x", hexs(pl), t), len(pl)+1, false)
		m := append([]byte{byte(t)}, pl...)
		ask("decBreq", []string{kvh("b", m)}, "decBreq "+hexs(m), len(m), false)
		ask("decBresp", []string{kvh("b", m)}, "decBresp "+hexs(m), len(m), false)
	}
	// frame length boundaries: 0, 1, 4, 5, 262144, 262145, 2^31-1, 2^32-1 with short/empty bodies
	for _, l := range []uint32{0, 1, 4, 5, 6, 34000, 34001, 262144, 262145, 0x7fffffff, 0xffffffff} {
		for _, bodyLen := range []int{0, 1, 5, 6} {
			m := binary.BigEndian.AppendUint32(nil, l)
			for i := 0; i < bodyLen; i++ {
				m = append(m, byte(3+i))
			}
			ask("frameA", []string{kvh("b", m)}, "frameA "+hexs(m), len(m), false)
			ask("frameAalloc", []string{kvh("b", m)}, "frameAalloc "+hexs(m), len(m), false)
			ask("frameB", []string{kvh("b", m), kvx("max", 34000)}, "frameB "+hexs(m)+" 84d0", len(m), false)
		}
	}
	// the limit is the caller's, whatever scratch buffer the caller brings: small limits x buffer capacities (0 = nil, which
	// makes the reader allocate its own 64 bytes) x declared lengths around the limit and around the capacity, body whole or cut
	for _, mx := range []int{5, 9, 20, 40, 100} {
		for _, cp := range []int{0, 4, 16, 64, 200, 1024} {
			lens := map[int]bool{}
			for _, base := range []int{mx, cp, 64} {
				for d := -1; d <= 1; d++ {
					if l := base + d; l >= 5 {
						lens[l] = true
					}
				}
			}
			var ls []int
			for l := range lens {
				ls = append(ls, l)
			}
			sort.Ints(ls)
			for _, l := range ls {
				for _, cut := range []int{0, 1} {
					m := binary.BigEndian.AppendUint32(nil, uint32(l))
					for i := 0; i < l-cut; i++ {
						m = append(m, byte(3+i))
					}
					ask("frameB", []string{kvh("b", m), kvx("max", uint64(mx)), kvx("cap", uint64(cp))}, fmt.Sprintf("frameBbuf %s %x %x", hexs(m), mx, cp), len(m), cut == 0 && l <= mx)
					c.Stat("frameB_with_scratch_buffer")
				}
			}
		}
	}
	// full-size frames (exactly the limit)
	big := binary.BigEndian.AppendUint32(nil, 262144)
	big = append(big, make([]byte, 262144)...)
	big[4] = 4
	ask("frameA", []string{kvh("b", big)}, "frameA "+hexs(big), len(big), true)
	ask("frameAalloc", []string{kvh("b", big)}, "frameAalloc "+hexs(big), len(big), true)
	ask("frameA", []string{kvh("b", big[:len(big)-1])}, "frameA "+hexs(big[:len(big)-1]), len(big)-1, false)
	// random strings
	nr := 300
	if c.Thorough() {
		nr = 20000
	}
	for i := 0; i < nr; i++ {
		m := make([]byte, c.Rng.Intn(40))
		c.Rng.Read(m)
		if len(m) > 0 && c.Rng.Intn(2) == 0 {
			m[0] = byte([]int{3, 4, 5, 6, 9, 14, 18, 200, 101, 103, 104, 105}[c.Rng.Intn(12)])
		}
		if len(m) >= 1 {
			ask("decA", []string{kvx("ty", uint64(m[0])), kvh("b", m[1:])}, "decA "+hexs(m[1:])+" "+fmt.Sprintf("%x", m[0]), len(m), false)
		}
		ask("decBreq", []string{kvh("b", m)}, "decBreq "+hexs(m), len(m), false)
		ask("decBresp", []string{kvh("b", m)}, "decBresp "+hexs(m), len(m), false)
		ask("attrsA", []string{kvh("b", m)}, "attrsA "+hexs(m), len(m), false)
		ask("attrsB", []string{kvh("b", m)}, "attrsB "+hexs(m), len(m), false)
	}
	// a transport that FAILS (an error that is not io.EOF) after every number of bytes of a valid frame, delivering in
	// pieces of 1, 3 or as many bytes as asked: both frame readers must return an error, never panic (oracle only)
	for _, k := range []string{"open", "write", "close", "status", "data", "name", "init"} {
		p := genPacket(c.Rng, k, 0xf, false)
		if len(p.Data) > 40 {
			p.Data = p.Data[:40]
		}
		fr, err := sftp.VerifEncA(p)
		if err != nil {
			continue
		}
		for failAt := 0; failAt < len(fr); failAt++ {
			for _, step := range []int{0, 1, 3} {
				for _, alloc := range []bool{false, true} {
					n := c.Case("framefail", kvs("codec", "a"), kvs("kind", k), kvi("failat", failAt), kvi("step", step), kvb("alloc", alloc), kvh("frame", fr))
					c.NT(n)
					ek, _, pan := sftp.VerifRecvPacketFail(fr, failAt, step, alloc)
					c.Stat("framefail_a")
					switch {
					case pan:
						c.Oracle(n, false, fmt.Sprintf("frame reader A panicked when the transport failed after %d of %d bytes", failAt, len(fr)))
					case ek == "ok":
						c.Oracle(n, false, fmt.Sprintf("frame reader A returned a packet although the transport failed after %d of %d bytes", failAt, len(fr)))
					default:
						c.Oracle(n, true, "")
					}
				}
				n := c.Case("framefail", kvs("codec", "b"), kvs("kind", k), kvi("failat", failAt), kvi("step", step), kvh("frame", fr))
				c.NT(n)
				ek, _, pan := sftp.VerifReadPacketBFail(fr, failAt, step, 1<<18)
				c.Stat("framefail_b")
				switch {
				case pan:
					c.Oracle(n, false, fmt.Sprintf("frame reader B panicked when the transport failed after %d of %d bytes", failAt, len(fr)))
				case ek == "ok":
					c.Oracle(n, false, fmt.Sprintf("frame reader B returned a packet although the transport failed after %d of %d bytes", failAt, len(fr)))
				default:
					c.Oracle(n, true, "")
				}
			}
		}
	}
	c.Diag("c08 child crashes: %d", crashes)
}
