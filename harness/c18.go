package main

// C18 — the server buffer allocator is invisible.
// The same request program (serial or pipelined, request server under the same gate schedule, or os-backed server) is
// run with the allocator off and on; the two response streams must be byte-identical, every DATA payload must equal
// the file at that offset (each file has its own byte pattern, so a reused buffer shows), written files must end up
// as the writes applied, and at quiescence at most the receive page of the next packet may be in use.
// MaxTxPacket above 256 KiB with the allocator on is run in a child process (known to panic). Oracle only.

import (
	"bytes"
	"context"
	"encoding/binary"
	"fmt"
	"math/rand"
	"net"
	"os"
	"os/exec"
	"path/filepath"
	"sort"
	"strconv"
	"strings"
	"sync"
	"sync/atomic"
	"time"

	"github.com/pkg/sftp"
)

var c18NeverQuiet int32 // set once a case found pages still in use 5 s after the last response

func init() {
	register("c18", runC18)
	childEntries["c18"] = func([]string) { childLoop(c18ChildHandle) }
}

// c18ZeroTimes returns the attribute block at b with atime/mtime zeroed, and its length (-1: malformed).
func c18Attrs(b []byte) ([]byte, int) {
	if len(b) < 4 {
		return nil, -1
	}
	fl := binary.BigEndian.Uint32(b)
	n := 4
	if fl&1 != 0 {
		n += 8
	}
	if fl&2 != 0 {
		n += 8
	}
	if fl&4 != 0 {
		n += 4
	}
	tpos := -1
	if fl&8 != 0 {
		tpos = n
		n += 8
	}
	if fl&0x80000000 != 0 {
		if len(b) < n+4 {
			return nil, -1
		}
		cnt := int(binary.BigEndian.Uint32(b[n:]))
		n += 4
		for i := 0; i < 2*cnt; i++ {
			if len(b) < n+4 {
				return nil, -1
			}
			n += 4 + int(binary.BigEndian.Uint32(b[n:]))
		}
	}
	if len(b) < n {
		return nil, -1
	}
	out := append([]byte(nil), b[:n]...)
	if tpos >= 0 {
		copy(out[tpos:], make([]byte, 8))
	}
	return out, n
}

// c18Norm: what is compared between the two runs. Request server: the raw frame. os-backed server: times are masked
// (atime moves when a file is read), listing entries are sorted and their long names (dates) dropped, the statvfs
// numbers (free blocks) are dropped.
func c18Norm(r *rawResp, osBacked bool) []byte {
	if !osBacked {
		return r.Raw
	}
	switch r.Typ {
	case fxpAttrs:
		if a, n := c18Attrs(r.Body); n >= 0 {
			return append(append([]byte{r.Typ}, r.Raw[5:9]...), a...)
		}
	case fxpExtendedReply:
		return append([]byte{r.Typ}, r.Raw[5:9]...)
	case fxpName:
		b := r.Body
		if len(b) < 4 {
			break
		}
		cnt := int(binary.BigEndian.Uint32(b))
		b = b[4:]
		var ents []string
		for i := 0; i < cnt; i++ {
			var name string
			for k := 0; k < 2; k++ {
				if len(b) < 4 || len(b) < 4+int(binary.BigEndian.Uint32(b)) {
					return r.Raw
				}
				l := int(binary.BigEndian.Uint32(b))
				if k == 0 {
					name = string(b[4 : 4+l])
				}
				b = b[4+l:]
			}
			a, n := c18Attrs(b)
			if n < 0 {
				return r.Raw
			}
			b = b[n:]
			ents = append(ents, fmt.Sprintf("%q:%x", name, a))
		}
		sort.Strings(ents)
		return append(append([]byte{r.Typ}, r.Raw[5:9]...), strings.Join(ents, ",")...)
	}
	return r.Raw
}

type c18Out struct {
	res      *pgRunRes
	files    map[string][]byte // final content of the written files, by wire path
	down     bool
	usedQ    int // pages in use at quiescence (allocator on)
	dupMax   int // most pages seen lent twice at any sample
	usedEnd  int
	availEnd int
	hasAlloc bool
}

// c18Exec runs the program once.
func c18Exec(prog *pgProgram, k c02Cfg, gated bool, permSeed int64, slow bool) (*c18Out, error) {
	hub := newPgHub()
	o := pgInstOpt{reqServer: k.reqServer, alloc: k.alloc, maxTx: k.maxTx, hub: hub, slowRead: slow}
	var g *pgGate
	dir := ""
	if k.reqServer {
		g = newPgGate(!gated, hub)
		o.store = newPgStore(g)
		pgPopulateStore(o.store)
	} else {
		// the same path for both runs of a case: error texts and REALPATH answers carry it
		dir = os.TempDir() + "/vh-c18-" + strconv.Itoa(os.Getpid())
		os.RemoveAll(dir)
		if err := pgPopulateDir(dir); err != nil {
			return nil, err
		}
		defer os.RemoveAll(dir)
		o.workDir = dir
	}
	in, err := pgStart(o)
	if err != nil {
		return nil, err
	}
	out := &c18Out{files: map[string][]byte{}}
	var stop, dupMax int32
	sampled := make(chan struct{})
	go func() {
		defer close(sampled)
		for atomic.LoadInt32(&stop) == 0 {
			if d, ok := sftp.VerifAllocDupPages(in.srv); ok && int32(d) > dupMax {
				dupMax = int32(d)
			}
			time.Sleep(200 * time.Microsecond)
		}
	}()
	ro := pgRunOpt{permSeed: permSeed}
	if gated && k.reqServer {
		ro.gate = g
	}
	out.res = pgRun(in, prog.reqs, ro)
	// quiescence: every response is out; only the receive page of the packet not yet arrived may be in use
	limit := 5 * time.Second
	if atomic.LoadInt32(&c18NeverQuiet) != 0 {
		limit = 100 * time.Millisecond // an earlier case of this process already waited in vain: the failure is reported anyway
	}
	for t0 := time.Now(); ; {
		u, _, ok := sftp.VerifAllocCounts(in.srv)
		out.usedQ, out.hasAlloc = u, ok
		if !ok || u <= 1 {
			break
		}
		if time.Since(t0) > limit {
			atomic.StoreInt32(&c18NeverQuiet, 1)
			break
		}
		time.Sleep(time.Millisecond)
	}
	atomic.StoreInt32(&stop, 1)
	<-sampled
	out.dupMax = int(dupMax)
	for _, s := range prog.slots {
		if s.kind == "w" || s.kind == "rw" {
			if k.reqServer {
				out.files[s.path], _ = o.store.content(s.path)
			} else {
				out.files[s.path], _ = os.ReadFile(dir + s.path)
			}
		}
	}
	out.down = in.shutdown()
	if g != nil {
		g.setFree()
	}
	out.usedEnd, out.availEnd, _ = sftp.VerifAllocCounts(in.srv)
	return out, nil
}

// c18Content: DATA payloads against the files, write statuses, final content of the written files.
func c18Content(prog *pgProgram, out *c18Out, maxTx uint32, tag string) (bool, string) {
	if ok, why := pgCheckStream(prog.reqs, out.res.resps); !ok {
		return false, why
	}
	if maxTx < 32768 {
		maxTx = 32768
	}
	model := map[string][]byte{}
	for i, rq := range prog.reqs {
		rs := out.res.resps[i]
		if (rq.typ == fxpOpen || rq.typ == fxpOpendir) && rq.slot >= 0 {
			if h, ok := rs.handle(); !ok || h != prog.slots[rq.slot].handle {
				return false, fmt.Sprintf("harness-handle-prediction: %s answered %s %q, predicted handle %q", rq.op, pgTypeName(rs.Typ), h, prog.slots[rq.slot].handle)
			}
			continue
		}
		if rq.slot < 0 {
			continue
		}
		s := prog.slots[rq.slot]
		switch {
		case rq.typ == fxpRead && s.kind == "r":
			n := int(rq.ln)
			if n > int(maxTx) {
				n = int(maxTx)
			}
			if int(rq.off) >= s.size {
				if code, ok := rs.statusCode(); !ok || code != 1 {
					return false, fmt.Sprintf("data-mismatch(%s): READ at end of file answered %s", tag, pgTypeName(rs.Typ))
				}
				continue
			}
			if int(rq.off)+n > s.size {
				n = s.size - int(rq.off)
			}
			d, ok := rs.data()
			if !ok {
				return false, fmt.Sprintf("data-mismatch(%s): READ len=%d inside a file answered %s", tag, rq.ln, pgTypeName(rs.Typ))
			}
			if !bytes.Equal(d, pgPatBytes(s.fileNo, int64(rq.off), n)) {
				what := "differs from the file at that offset"
				for k, sz := range pgRoSizes {
					if k != s.fileNo && int(rq.off)+len(d) <= sz && bytes.Equal(d, pgPatBytes(k, int64(rq.off), len(d))) {
						what = "is the content of another file"
					}
				}
				return false, fmt.Sprintf("data-mismatch(%s): DATA payload (%d bytes, READ len=%d) %s", tag, len(d), rq.ln, what)
			}
		case rq.typ == fxpWrite && (s.kind == "w" || s.kind == "rw"):
			if code, ok := rs.statusCode(); !ok || code != 0 {
				return false, fmt.Sprintf("write-failed(%s): WRITE of %d bytes answered STATUS %d", tag, len(rq.data), code)
			}
			m := model[s.path]
			if need := int(rq.off) + len(rq.data); need > len(m) {
				m = append(m, make([]byte, need-len(m))...)
			}
			copy(m[rq.off:], rq.data)
			model[s.path] = m
		}
	}
	for _, s := range prog.slots {
		if s.kind != "w" && s.kind != "rw" {
			continue
		}
		if !bytes.Equal(out.files[s.path], model[s.path]) {
			return false, fmt.Sprintf("written-content(%s): a written file is not the writes applied (%d bytes, expected %d)", tag, len(out.files[s.path]), len(model[s.path]))
		}
	}
	return true, ""
}

func runC18(c *Ctx) {
	c.Rule("seeded request programs (as c02, restricted so that answers cannot depend on worker timing: handles used only after their OPEN reply, reads only on files nothing writes, " +
		"each written file opened once) of 8..30 requests with READs up to 262144 bytes on files of distinct byte patterns, WRITEs up to 250000 bytes, commands; serial (one request at a time) and " +
		"pipelined (request server: gated backend with the same seeded gate schedule for both runs, a third with open gates; half of the pipelined cases with a reader that takes the response stream in 2 KiB pieces so that sends last longer); MaxTxPacket default/32768/65536/262144; both servers; each case = the program run with the allocator off and on. " +
		"kind maxtx_over: MaxTxPacket above 262144 and a READ of that length, in a child process. non-trivial = the program has at least 2 DATA answers of different files or a DATA answer and a WRITE, " +
		"and at least 3 READ/WRITE requests")
	nProg := 160
	if c.Thorough() {
		nProg = 1600
	}
	lost := 0 // cases whose process died or did not answer within 45 s
	child, err := startChild("c18", 6000000)
	if err != nil {
		c.Diag("c18 child: %v", err)
		return
	}
	defer func() { child.kill() }()
	for pi := 0; pi < nProg; pi++ {
		seed := c.Rng.Int63()
		depth := 8 + int(seed>>8)%23
		for _, reqServer := range []bool{true, false} {
			for _, maxTx := range []uint32{0, 32768, 65536, 262144} {
				for _, serial := range []bool{false, true} {
					if serial && (pi+int(maxTx>>15))%3 != 0 { // serial runs are a third of the pipelined ones
						continue
					}
					big := maxTx >= 65536 || pi%2 == 0
					slow := !serial && pi%2 == 1
					gated := reqServer && !serial && pi%3 != 2 // a third of the pipelined request-server cases run with open gates (natural timing)
					req := fmt.Sprintf("diff rs=%v maxtx=%d serial=%v seed=%d depth=%d big=%v slow=%v gated=%v", reqServer, maxTx, serial, seed, depth, big, slow, gated)
					n := c.Case("diff", kvs("srv", c02Cfg{reqServer: reqServer}.name()), kvx("maxtx", uint64(maxTx)), kvb("serial", serial), kvb("gated", gated), kvb("slowreader", slow), kvx("seed", uint64(seed)), kvi("depth", depth))
					if lost >= 3 {
						c.Oracle(n, false, "server-crash: not run: three earlier cases of this family crashed or hung their process")
						continue
					}
					ans, alive := child.ask(req, 45*time.Second)
					f := strings.SplitN(ans, "|", 4)
					if !alive || len(f) != 4 {
						lost++
						// the server panicked (or hung): run the case again in a fresh process that keeps stderr, to name the panic
						child.kill()
						_, _, panicLine := c18Spawn(req)
						c.Oracle(n, false, "server-crash: the process serving this case died: "+panicLine)
						c.Stat("cases_crashed")
						if child, err = startChild("c18", 6000000); err != nil {
							c.Diag("c18 child: %v", err)
							return
						}
						continue
					}
					c.Oracle(n, f[0] == "ok", f[1])
					if f[2] == "nt" {
						c.NT(n)
					}
					for _, st := range strings.Split(f[3], ";") {
						if i := strings.IndexByte(st, ':'); i > 0 {
							k, _ := strconv.Atoi(st[i+1:])
							c.StatN(st[:i], k)
						}
					}
				}
			}
		}
	}
	c18ShortWrites(c)
	c18SharedOptions(c)
	c18FailedSends(c)
	// MaxTxPacket above the page size
	for _, n := range []int{262145, 300000, 1 << 20} {
		for _, reqServer := range []bool{true, false} {
			for _, alloc := range []bool{false, true} {
				dir, err := os.MkdirTemp("", "vh-c18c-")
				if err != nil {
					c.Diag("c18 mktemp: %v", err)
					return
				}
				ans, died, panicLine := c18Spawn(fmt.Sprintf("rs=%v alloc=%v n=%d dir=%s", reqServer, alloc, n, dir))
				os.RemoveAll(dir)
				cn := c.Case("maxtx_over", kvs("srv", c02Cfg{reqServer: reqServer}.name()), kvb("alloc", alloc), kvi("n", n))
				c.NT(cn)
				switch {
				case died:
					c.Oracle(cn, false, fmt.Sprintf("alloc-maxtx-panic: the server process died on a READ of %d bytes with MaxTxPacket %d (allocator on=%v): %s", n, n, alloc, panicLine))
				case ans != fmt.Sprintf("typ=%d len=%d good=true", fxpData, n):
					c.Oracle(cn, false, fmt.Sprintf("maxtx-over-answer: READ of %d bytes with MaxTxPacket %d answered %s", n, n, ans))
				default:
					c.Oracle(cn, true, "")
				}
				c.Stat("cases_maxtx_over")
			}
		}
	}
}

// c18Diff (child process): one case = the program run with the allocator off and on. Answer: ok|reason|nt|stat:count,...
func c18Diff(kv map[string]string) string {
	reqServer, serial := kv["rs"] == "true", kv["serial"] == "true"
	mt, _ := strconv.ParseUint(kv["maxtx"], 10, 32)
	maxTx := uint32(mt)
	seed, _ := strconv.ParseInt(kv["seed"], 10, 64)
	depth, _ := strconv.Atoi(kv["depth"])
	stats := map[string]int{}
	gen := func() *pgProgram {
		return pgGenProgram(rand.New(rand.NewSource(seed)), pgGenOpt{reqServer: reqServer, stable: true, serial: serial, depth: depth, maxTx: maxTx, bigIO: kv["big"] == "true"})
	}
	kOff, kOn := c02Cfg{reqServer, false, maxTx}, c02Cfg{reqServer, true, maxTx}
	p0, p1 := gen(), gen()
	slow, gated := kv["slow"] == "true", kv["gated"] == "true"
	off, err := c18Exec(p0, kOff, gated, seed, slow)
	if err != nil {
		return "FAIL|harness-setup: " + err.Error() + "|-|"
	}
	on, err := c18Exec(p1, kOn, gated, seed, slow)
	if err != nil {
		return "FAIL|harness-setup: " + err.Error() + "|-|"
	}
	ok, why := c18Content(p0, off, maxTx, "alloc=off")
	if ok {
		ok, why = c18Content(p1, on, maxTx, "alloc=on")
	}
	if ok {
		for i := range p0.reqs {
			if !bytes.Equal(c18Norm(off.res.resps[i], !reqServer), c18Norm(on.res.resps[i], !reqServer)) {
				ok, why = false, fmt.Sprintf("alloc-changes-responses: the answer to request %d (%s) is %s of %d bytes without and %s of %d bytes with the allocator", i, p0.reqs[i].op,
					pgTypeName(off.res.resps[i].Typ), len(off.res.resps[i].Raw), pgTypeName(on.res.resps[i].Typ), len(on.res.resps[i].Raw))
				break
			}
		}
	}
	switch {
	case !ok:
	case !on.hasAlloc || off.hasAlloc:
		ok, why = false, "harness-alloc-hook: allocator presence does not follow the option"
	case on.dupMax > 0:
		ok, why = false, fmt.Sprintf("alloc-page-lent-twice: %d pages were in two lists at once", on.dupMax)
	case on.usedQ > 1:
		ok, why = false, fmt.Sprintf("alloc-pages-in-use: %d pages still marked in use after the last response", on.usedQ)
	case !on.down || !off.down:
		ok, why = false, "server-hang: Serve did not return within 5 s of closing the connection"
	case on.usedEnd != 0 || on.availEnd != 0:
		ok, why = false, fmt.Sprintf("alloc-not-freed: used=%d available=%d after Serve returned", on.usedEnd, on.availEnd)
	}
	files, nData, nWrite, nRW := map[int]bool{}, 0, 0, 0
	for i, rq := range p0.reqs {
		if rq.typ == fxpRead || rq.typ == fxpWrite {
			nRW++
		}
		if i < len(off.res.resps) && off.res.resps[i].Typ == fxpData && rq.slot >= 0 {
			nData++
			files[p0.slots[rq.slot].fileNo] = true
			switch d, _ := off.res.resps[i].data(); {
			case len(d) >= 200000:
				stats["data_200000+"]++
			case len(d) >= 32768:
				stats["data_32768+"]++
			default:
				stats["data_small"]++
			}
		}
		if rq.typ == fxpWrite && rq.slot >= 0 {
			nWrite++
		}
		stats["op_"+rq.op]++
	}
	nt := "-"
	if nRW >= 3 && (len(files) >= 2 || (nData >= 1 && nWrite >= 1)) {
		nt = "nt"
	}
	stats["cases_"+kOff.name()]++
	if off.res.timedOut || on.res.timedOut {
		stats["timeouts"]++
	}
	if on.res.mispredicts+off.res.mispredicts > 0 {
		stats["runs_on_idle_rule"]++
	}
	var sl []string
	for k, v := range stats {
		sl = append(sl, fmt.Sprintf("%s:%d", k, v))
	}
	sort.Strings(sl)
	verdict := "ok"
	if !ok {
		verdict = "FAIL"
	}
	return verdict + "|" + strings.ReplaceAll(why, "|", "/") + "|" + nt + "|" + strings.Join(sl, ";")
}

// c18Spawn runs one request in a fresh child process; stderr is kept to name the panic.
func c18Spawn(req string) (ans string, died bool, panicLine string) {
	self, err := os.Executable()
	if err != nil {
		return "", true, "no executable"
	}
	ctx, cancel := context.WithTimeout(context.Background(), 30*time.Second)
	defer cancel()
	cmd := exec.CommandContext(ctx, "sh", "-c", fmt.Sprintf("ulimit -v 6000000; exec %q child c18", self))
	cmd.Stdin = strings.NewReader(req + "\n")
	var so, se bytes.Buffer
	cmd.Stdout, cmd.Stderr = &so, &se
	runErr := cmd.Run()
	ans = strings.TrimSpace(so.String())
	if runErr != nil || ans == "" {
		panicLine = "no panic message"
		for _, l := range strings.Split(se.String(), "\n") {
			if strings.HasPrefix(l, "panic: ") {
				panicLine = l
				break
			}
		}
		return ans, true, panicLine
	}
	return ans, false, ""
}

// c18ChildHandle (child process): one server, one file of n+1000 bytes, INIT, OPEN, READ of n bytes at offset 0.
func c18ChildHandle(req string) string {
	kv := map[string]string{}
	for _, f := range strings.Fields(req) {
		if i := strings.IndexByte(f, '='); i > 0 {
			kv[f[:i]] = f[i+1:]
		}
	}
	if strings.HasPrefix(req, "diff ") {
		return c18Diff(kv)
	}
	n, _ := strconv.Atoi(kv["n"])
	o := pgInstOpt{reqServer: kv["rs"] == "true", alloc: kv["alloc"] == "true", maxTx: uint32(n)}
	content := pgPatBytes(7, 0, n+1000)
	o.hub = newPgHub()
	if o.reqServer {
		o.store = newPgStore(newPgGate(true, o.hub))
		o.store.putFile("/big", content)
	} else {
		if err := os.WriteFile(kv["dir"]+"/big", content, 0o644); err != nil {
			return "setup-failed"
		}
		o.workDir = kv["dir"]
	}
	in, err := pgStart(o)
	if err != nil {
		return "setup-failed"
	}
	prog := []*pgReq{
		{op: "INIT", typ: fxpInit, frame: rawInit()},
		{op: "OPEN", typ: fxpOpen, id: 11, frame: rawOpen(11, "big", 1, 0, nil)},
		{op: "READ", typ: fxpRead, id: 12, frame: rawRead(12, "1", 0, uint32(n)), sync: true},
	}
	res := pgRun(in, prog, pgRunOpt{})
	in.shutdown()
	if len(res.resps) < 3 {
		return fmt.Sprintf("responses=%d", len(res.resps))
	}
	d, _ := res.resps[2].data()
	return fmt.Sprintf("typ=%d len=%d good=%v", res.resps[2].Typ, len(d), bytes.Equal(d, content[:n]))
}

// c18ShortWrites (kind shortwrite): request streams that are not all well formed. After an OPEN, a few WRITEs of a
// recognisable filler and a READ (so that, with the allocator, pooled pages hold earlier payloads), the client sends a WRITE
// whose length field announces more data than the packet carries, then - if the connection is still there - a READ of the
// whole file and a CLOSE. The sequence of answers (type, status code, DATA payload; or "closed") and the final content of the
// file must be the same with the allocator off and on. Oracle only.
func c18ShortWrites(c *Ctx) {
	for _, reqServer := range []bool{false, true} {
		for _, carried := range []int{0, 4, 300} {
			for _, excess := range []int{1, 60, 5000, 100000} {
				var outs [2]string
				for ai, alloc := range []bool{false, true} {
					dir, err := os.MkdirTemp("", "vh-c18sw-")
					if err != nil {
						return
					}
					name := "/f"
					o := pairOpt{reqServer: reqServer, alloc: alloc}
					var mf *memFile
					if reqServer {
						fs := newMemFS()
						mf = fs.get("/f", true)
						o.handlers = fs.handlers()
					} else {
						name = filepath.Join(dir, "f")
						os.WriteFile(name, nil, 0o644)
					}
					rs, err := newRawSession(o)
					if err != nil {
						os.RemoveAll(dir)
						c.Diag("shortwrite session: %v", err)
						return
					}
					var log []string
					note := func(r *rawResp, err error) bool {
						if err != nil || r == nil {
							log = append(log, "closed")
							return false
						}
						e := fmt.Sprintf("%s", pgTypeName(r.Typ))
						if code, isSt := r.statusCode(); isSt {
							e += fmt.Sprintf(":%d", code)
						}
						if d, isD := r.data(); isD {
							e += ":" + hexs(d)
						}
						log = append(log, e)
						return true
					}
					h := ""
					if r, err := rs.do(rawOpen(1, name, 0x1b, 0, nil)); note(r, err) { // READ|WRITE|CREAT|TRUNC
						h, _ = r.handle()
					}
					alive := h != ""
					for k := 0; alive && k < 3; k++ {
						alive = note(rs.do(rawWrite(uint32(10+k), h, uint64(k*2000), bytes.Repeat([]byte{'S'}, 2000))))
					}
					if alive {
						r, err := rs.do(rawRead(20, h, 0, 6000))
						alive = err == nil && r != nil
						log = append(log, fmt.Sprintf("read:%v", alive))
					}
					if alive {
						// WRITE at offset 6000: `carried` bytes of 'w', length field = carried + excess
						data := bytes.Repeat([]byte{'w'}, carried)
						fr := frame(pkt(fxpWrite, 30).str(h).u64(6000).u32(uint32(carried + excess)).b)
						fr = append(fr, data...)
						binary.BigEndian.PutUint32(fr, uint32(len(fr)-4))
						alive = note(rs.do(fr))
					}
					if alive {
						alive = note(rs.do(rawRead(40, h, 5990, 32768)))
					}
					if alive {
						note(rs.do(rawHandleOp(fxpClose, 50, h)))
					}
					rs.Close()
					var final []byte
					if mf != nil {
						final = mf.bytes()
					} else {
						final, _ = os.ReadFile(name)
					}
					os.RemoveAll(dir)
					outs[ai] = strings.Join(log, " ") + fmt.Sprintf(" | file: %d bytes, beyond 6000: %s", len(final), hexs(final[min(6000, len(final)):min(6040, len(final))]))
				}
				n := c.Case("shortwrite", kvs("srv", c02Cfg{reqServer: reqServer}.name()), kvi("carried", carried), kvi("excess", excess))
				c.NT(n)
				c.Stat("cases_shortwrite")
				if outs[0] != outs[1] {
					c.Oracle(n, false, fmt.Sprintf("alloc-changes-responses: a WRITE announcing %d bytes more than the %d it carries: without the allocator [%s], with it [%s]", excess, carried, truncs(outs[0]), truncs(outs[1])))
				} else {
					c.Oracle(n, true, "")
				}
			}
		}
	}
}

// c18SharedOptions (kind sharedopt): a program that serves many connections builds its option list once and passes it to
// NewServer / NewRequestServer for every connection. Two connections served at the same time by servers built from the SAME
// allocator option value: each pipelines READs of its own file (different contents) and WRITE+READ-back pairs; every DATA
// answer must carry the bytes of its own connection's file - the allocator of one connection is invisible to the other.
func c18SharedOptions(c *Ctx) {
	for rep := 0; rep < 6; rep++ {
		reqServer := rep%2 == 1
		optS := sftp.WithAllocator()
		optRS := sftp.WithRSAllocator()
		type side struct {
			conn net.Conn
			done chan struct{}
			file []byte
			name string
			bad  string
		}
		dir, err := os.MkdirTemp("", "vh-c18so-")
		if err != nil {
			return
		}
		sides := make([]*side, 2)
		for k := range sides {
			c1, c2 := net.Pipe()
			sd := &side{conn: c1, done: make(chan struct{}), file: bytes.Repeat([]byte{byte('A' + k)}, 300000)}
			for i := range sd.file {
				sd.file[i] = byte(int('A'+k) + i%7*2)
			}
			if reqServer {
				fs := newMemFS()
				fs.get("/f", true).data = append([]byte(nil), sd.file...)
				sd.name = "/f"
				rs := sftp.NewRequestServer(c2, fs.handlers(), optRS)
				go func() { rs.Serve(); rs.Close(); close(sd.done) }()
			} else {
				sd.name = filepath.Join(dir, fmt.Sprintf("f%d", k))
				os.WriteFile(sd.name, sd.file, 0o644)
				sv, err := sftp.NewServer(c2, optS)
				if err != nil {
					c.Diag("sharedopt: %v", err)
					os.RemoveAll(dir)
					return
				}
				go func() { sv.Serve(); c2.Close(); close(sd.done) }()
			}
			sides[k] = sd
		}
		var wg sync.WaitGroup
		for _, sd := range sides {
			wg.Add(1)
			go func(sd *side) {
				defer wg.Done()
				sd.conn.SetDeadline(time.Now().Add(20 * time.Second))
				sd.conn.Write(rawInit())
				if _, err := readFrame(sd.conn); err != nil {
					sd.bad = "no VERSION"
					return
				}
				sd.conn.Write(rawOpen(1, sd.name, 1, 0, nil))
				fr, err := readFrame(sd.conn)
				h, isH := "", false
				if err == nil {
					h, isH = fr.handle()
				}
				if !isH {
					sd.bad = "OPEN was not answered with a handle"
					return
				}
				const nReads = 48
				offs := map[uint32]int{}
				var stream []byte
				for i := 0; i < nReads; i++ {
					off := (i * 5003) % (len(sd.file) - 32768)
					id := uint32(100 + i)
					offs[id] = off
					stream = append(stream, rawRead(id, h, uint64(off), 32768)...)
				}
				go sd.conn.Write(stream)
				for i := 0; i < nReads; i++ {
					fr, err := readFrame(sd.conn)
					if err != nil {
						sd.bad = fmt.Sprintf("only %d of %d READs were answered: %v", i, nReads, err)
						return
					}
					d, isD := fr.data()
					off, known := offs[fr.ID]
					if !isD || !known || !bytes.Equal(d, sd.file[off:off+len(d)]) || len(d) != 32768 {
						sd.bad = fmt.Sprintf("the DATA answer to READ %d (offset %d) does not carry this connection's file content (%d bytes)", fr.ID, off, len(d))
						return
					}
				}
			}(sd)
		}
		returned := cctWait(&wg, 30*time.Second)
		for _, sd := range sides {
			sd.conn.Close()
		}
		for _, sd := range sides {
			select {
			case <-sd.done:
			case <-time.After(5 * time.Second):
			}
		}
		os.RemoveAll(dir)
		n := c.Case("sharedopt", kvs("srv", c02Cfg{reqServer: reqServer}.name()), kvi("rep", rep))
		c.NT(n)
		c.Stat("cases_sharedopt")
		switch {
		case !returned:
			c.Oracle(n, false, "sharedopt: the sessions did not finish within 30 s")
		case sides[0].bad != "" || sides[1].bad != "":
			c.Oracle(n, false, "alloc-changes-responses: two connections served with the same allocator option value: "+sides[0].bad+" "+sides[1].bad)
		default:
			c.Oracle(n, true, "")
		}
	}
}
